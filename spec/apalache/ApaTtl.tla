------------------------------- MODULE ApaTtl -------------------------------
(***************************************************************************)
(* Bonus (Apalache): the ttl-cache core of C02 / C04 / C16 / C17 as an     *)
(* inductive invariant (histories of any length, any clock readings up to  *)
(* MaxT).  State: live mapping, deadlines, the set `exp` of expired        *)
(* entries that still hold a slot, size, clock.  An implementation may     *)
(* discard expired entries whenever it likes (Reap); an evicting insert    *)
(* takes an expired entry if there is one (C16), else any live one.        *)
(***************************************************************************)
EXTENDS Integers, FiniteSets

CONSTANTS
  \* @type: Set(Int);
  Keys,
  \* @type: Int;
  Cap,
  \* @type: Int;
  MaxT

VARIABLES
  \* @type: Int -> Int;
  store,
  \* @type: Int -> Int;
  dl,
  \* @type: Set(Int);
  exp,
  \* @type: Int;
  size,
  \* @type: Int;
  now

CInit == Keys = 1..4 /\ Cap \in 1..3 /\ MaxT = 6

Live == {k \in Keys : store[k] # 0}

Init == /\ store = [k \in Keys |-> 0] /\ dl = [k \in Keys |-> 0] /\ exp = {} /\ size = 0 /\ now = 0

\* insert_or_update of key k with ttl d >= 1 at the current instant
Insert(k, d) ==
  /\ now + d <= MaxT
  /\ IF store[k] # 0 \/ k \in exp
     THEN \* live: update in place; expired and still holding its slot: overwritten in place
          /\ store' = [store EXCEPT ![k] = 1]
          /\ dl' = [dl EXCEPT ![k] = now + d]
          /\ exp' = exp \ {k}
          /\ size' = size
     ELSE IF size >= Cap
          THEN IF exp # {}
               THEN \E x \in exp : /\ exp' = exp \ {x}
                                   /\ store' = [store EXCEPT ![k] = 1]
                                   /\ dl' = [dl EXCEPT ![k] = now + d, ![x] = 0]
                                   /\ size' = size
               ELSE \E x \in Live : /\ store' = [store EXCEPT ![k] = 1, ![x] = 0]
                                    /\ dl' = [dl EXCEPT ![k] = now + d, ![x] = 0]
                                    /\ exp' = exp
                                    /\ size' = size
          ELSE /\ store' = [store EXCEPT ![k] = 1]
               /\ dl' = [dl EXCEPT ![k] = now + d]
               /\ exp' = exp
               /\ size' = size + 1
  /\ now' = now

Erase(k) ==
  /\ IF store[k] # 0
     THEN store' = [store EXCEPT ![k] = 0] /\ dl' = [dl EXCEPT ![k] = 0] /\ exp' = exp /\ size' = size - 1
     ELSE IF k \in exp
          THEN store' = store /\ dl' = [dl EXCEPT ![k] = 0] /\ exp' = exp \ {k} /\ size' = size - 1
          ELSE UNCHANGED <<store, dl, exp, size>>
  /\ now' = now

\* any call may discard any expired entries (lookup of an expired key, eager reaping, clean)
Reap ==
  /\ \E R \in SUBSET exp :
        /\ exp' = exp \ R
        /\ size' = size - Cardinality(R)
        /\ dl' = [k \in Keys |-> IF k \in R THEN 0 ELSE dl[k]]
  /\ UNCHANGED <<store, now>>

Tick ==
  /\ now < MaxT
  /\ now' = now + 1
  /\ LET X == {k \in Live : dl[k] <= now + 1} IN
       /\ store' = [k \in Keys |-> IF k \in X THEN 0 ELSE store[k]]
       /\ exp' = exp \union X
  /\ UNCHANGED <<dl, size>>

Next == (\E k \in Keys, d \in 1..3 : Insert(k, d)) \/ (\E k \in Keys : Erase(k)) \/ Reap \/ Tick

IndInv ==
  /\ store \in [Keys -> 0..1]
  /\ dl \in [Keys -> 0..MaxT]
  /\ exp \in SUBSET Keys
  /\ now \in 0..MaxT
  /\ size \in 0..Cap
  /\ exp \intersect Live = {}
  /\ size = Cardinality(Live) + Cardinality(exp)          \* C02: live <= size <= live + expired-not-removed
  /\ \A k \in Live : now < dl[k]                           \* C04: nothing live is past its deadline
  /\ \A k \in exp : dl[k] # 0 /\ dl[k] <= now             \* only really expired entries are counted as such
=============================================================================
