------------------------------ MODULE ApaStore ------------------------------
(***************************************************************************)
(* Bonus (Apalache): the capacity / size core of C02 and C03 for the       *)
(* non-ttl caches as an INDUCTIVE invariant, i.e. for histories of any     *)
(* length (TLC only explores reachable states up to its bounds).  The      *)
(* abstraction keeps what those two properties talk about: the live        *)
(* mapping and the reported size; the victim of an evicting insert is any  *)
(* resident other than the inserted key.                                   *)
(*   apalache-mc check --init=IndInv --inv=IndInv --length=1 ApaStore.tla  *)
(*   apalache-mc check --init=Init   --inv=IndInv --length=0 ApaStore.tla  *)
(***************************************************************************)
EXTENDS Integers, FiniteSets

CONSTANTS
  \* @type: Set(Int);
  Keys,
  \* @type: Int;
  Cap

VARIABLES
  \* @type: Int -> Int;
  store,
  \* @type: Int;
  size

CInit == Keys = 1..5 /\ Cap \in 1..4

Live == {k \in Keys : store[k] # 0}

Init == store = [k \in Keys |-> 0] /\ size = 0

\* insert(k, v, a): a in {1 insert, 2 update, 3 insert_or_update}
Insert(k, v, a) ==
  IF store[k] # 0
  THEN /\ store' = IF a \in {2, 3} THEN [store EXCEPT ![k] = v] ELSE store
       /\ size' = size
  ELSE IF a \in {1, 3}
       THEN IF size >= Cap
            THEN \E x \in Live : /\ x # k
                                 /\ store' = [store EXCEPT ![k] = v, ![x] = 0]
                                 /\ size' = size
            ELSE store' = [store EXCEPT ![k] = v] /\ size' = size + 1
       ELSE UNCHANGED <<store, size>>

Erase(k) ==
  IF store[k] # 0 THEN store' = [store EXCEPT ![k] = 0] /\ size' = size - 1
  ELSE UNCHANGED <<store, size>>

Next ==
  \/ \E k \in Keys, v \in 1..2, a \in 1..3 : Insert(k, v, a)
  \/ \E k \in Keys : Erase(k)

\* C02: 0 <= size <= capacity, size = number of keys a lookup finds.  Inductive.
IndInv ==
  /\ store \in [Keys -> 0..2]
  /\ size \in 0..Cap
  /\ size = Cardinality(Live)
=============================================================================
