---- MODULE Conc_TTrace_1791026393 ----
EXTENDS Conc, Sequences, TLCExt, Toolbox, Naturals, TLC

_expression ==
    LET Conc_TEExpression == INSTANCE Conc_TEExpression
    IN Conc_TEExpression!expression
----

_trace ==
    LET Conc_TETrace == INSTANCE Conc_TETrace
    IN Conc_TETrace!trace
----

_inv ==
    ~(
        TLCGet("level") = Len(_TETrace)
        /\
        st = ([size |-> 2, ttl |-> 0, store |-> <<4, 4>>, cnt |-> <<0, 0>>, rec |-> <<2, 1>>, queue |-> <<>>, stamp |-> <<0, 0>>, dl |-> <<5, 5>>, unr |-> {}])
        /\
        hist = (<<<<"inv", 2, 1, 0>>, <<"inv", 1, 1, 0>>, <<"com", 2, 1, 2>>, <<"com", 1, 1, -2>>>>)
        /\
        pc = (<<"idle", "idle">>)
        /\
        cfg = ([kind |-> "tlru", cap |-> 2, tick |-> 2, rnum |-> 1, rsh |-> 1, ttl0 |-> 0])
        /\
        now = (0)
        /\
        smp = (<<[size |-> 0, ttl |-> 0], [size |-> 0, ttl |-> 0]>>)
        /\
        idx = (<<2, 2>>)
        /\
        prog = (<<<<[k |-> 0, v |-> 0, a |-> 0, d |-> 0, op |-> "clean", p |-> 0, ks |-> <<>>]>>, <<[k |-> 0, v |-> 4, a |-> 3, d |-> 5, op |-> "insr", p |-> 0, ks |-> <<1, 2>>]>>>>)
    )
----

_init ==
    /\ cfg = _TETrace[1].cfg
    /\ now = _TETrace[1].now
    /\ smp = _TETrace[1].smp
    /\ prog = _TETrace[1].prog
    /\ pc = _TETrace[1].pc
    /\ idx = _TETrace[1].idx
    /\ st = _TETrace[1].st
    /\ hist = _TETrace[1].hist
----

_next ==
    /\ \E i,j \in DOMAIN _TETrace:
        /\ \/ /\ j = i + 1
              /\ i = TLCGet("level")
        /\ cfg  = _TETrace[i].cfg
        /\ cfg' = _TETrace[j].cfg
        /\ now  = _TETrace[i].now
        /\ now' = _TETrace[j].now
        /\ smp  = _TETrace[i].smp
        /\ smp' = _TETrace[j].smp
        /\ prog  = _TETrace[i].prog
        /\ prog' = _TETrace[j].prog
        /\ pc  = _TETrace[i].pc
        /\ pc' = _TETrace[j].pc
        /\ idx  = _TETrace[i].idx
        /\ idx' = _TETrace[j].idx
        /\ st  = _TETrace[i].st
        /\ st' = _TETrace[j].st
        /\ hist  = _TETrace[i].hist
        /\ hist' = _TETrace[j].hist

\* Uncomment the ASSUME below to write the states of the error trace
\* to the given file in Json format. Note that you can pass any tuple
\* to `JsonSerialize`. For example, a sub-sequence of _TETrace.
    \* ASSUME
    \*     LET J == INSTANCE Json
    \*         IN J!JsonSerialize("Conc_TTrace_1791026393.json", _TETrace)

=============================================================================

 Note that you can extract this module `Conc_TEExpression`
  to a dedicated file to reuse `expression` (the module in the 
  dedicated `Conc_TEExpression.tla` file takes precedence 
  over the module `Conc_TEExpression` below).

---- MODULE Conc_TEExpression ----
EXTENDS Conc, Sequences, TLCExt, Toolbox, Naturals, TLC

expression == 
    [
        \* To hide variables of the `Conc` spec from the error trace,
        \* remove the variables below.  The trace will be written in the order
        \* of the fields of this record.
        cfg |-> cfg
        ,now |-> now
        ,smp |-> smp
        ,prog |-> prog
        ,pc |-> pc
        ,idx |-> idx
        ,st |-> st
        ,hist |-> hist
        
        \* Put additional constant-, state-, and action-level expressions here:
        \* ,_stateNumber |-> _TEPosition
        \* ,_cfgUnchanged |-> cfg = cfg'
        
        \* Format the `cfg` variable as Json value.
        \* ,_cfgJson |->
        \*     LET J == INSTANCE Json
        \*     IN J!ToJson(cfg)
        
        \* Lastly, you may build expressions over arbitrary sets of states by
        \* leveraging the _TETrace operator.  For example, this is how to
        \* count the number of times a spec variable changed up to the current
        \* state in the trace.
        \* ,_cfgModCount |->
        \*     LET F[s \in DOMAIN _TETrace] ==
        \*         IF s = 1 THEN 0
        \*         ELSE IF _TETrace[s].cfg # _TETrace[s-1].cfg
        \*             THEN 1 + F[s-1] ELSE F[s-1]
        \*     IN F[_TEPosition - 1]
    ]

=============================================================================



Parsing and semantic processing can take forever if the trace below is long.
 In this case, it is advised to uncomment the module below to deserialize the
 trace from a generated binary file.

\*
\*---- MODULE Conc_TETrace ----
\*EXTENDS Conc, IOUtils, TLC
\*
\*trace == IODeserialize("Conc_TTrace_1791026393.bin", TRUE)
\*
\*=============================================================================
\*

---- MODULE Conc_TETrace ----
EXTENDS Conc, TLC

trace == 
    <<
    ([st |-> [size |-> 0, ttl |-> 0, store |-> <<0, 0>>, cnt |-> <<0, 0>>, rec |-> <<>>, queue |-> <<>>, stamp |-> <<0, 0>>, dl |-> <<0, 0>>, unr |-> {}],hist |-> <<>>,pc |-> <<"idle", "idle">>,cfg |-> [kind |-> "tlru", cap |-> 2, tick |-> 2, rnum |-> 1, rsh |-> 1, ttl0 |-> 0],now |-> 0,smp |-> <<[size |-> 0, ttl |-> 0], [size |-> 0, ttl |-> 0]>>,idx |-> <<1, 1>>,prog |-> <<<<[k |-> 0, v |-> 0, a |-> 0, d |-> 0, op |-> "clean", p |-> 0, ks |-> <<>>]>>, <<[k |-> 0, v |-> 4, a |-> 3, d |-> 5, op |-> "insr", p |-> 0, ks |-> <<1, 2>>]>>>>]),
    ([st |-> [size |-> 0, ttl |-> 0, store |-> <<0, 0>>, cnt |-> <<0, 0>>, rec |-> <<>>, queue |-> <<>>, stamp |-> <<0, 0>>, dl |-> <<0, 0>>, unr |-> {}],hist |-> <<<<"inv", 2, 1, 0>>>>,pc |-> <<"idle", "parked">>,cfg |-> [kind |-> "tlru", cap |-> 2, tick |-> 2, rnum |-> 1, rsh |-> 1, ttl0 |-> 0],now |-> 0,smp |-> <<[size |-> 0, ttl |-> 0], [size |-> 0, ttl |-> 0]>>,idx |-> <<1, 1>>,prog |-> <<<<[k |-> 0, v |-> 0, a |-> 0, d |-> 0, op |-> "clean", p |-> 0, ks |-> <<>>]>>, <<[k |-> 0, v |-> 4, a |-> 3, d |-> 5, op |-> "insr", p |-> 0, ks |-> <<1, 2>>]>>>>]),
    ([st |-> [size |-> 0, ttl |-> 0, store |-> <<0, 0>>, cnt |-> <<0, 0>>, rec |-> <<>>, queue |-> <<>>, stamp |-> <<0, 0>>, dl |-> <<0, 0>>, unr |-> {}],hist |-> <<<<"inv", 2, 1, 0>>, <<"inv", 1, 1, 0>>>>,pc |-> <<"parked", "parked">>,cfg |-> [kind |-> "tlru", cap |-> 2, tick |-> 2, rnum |-> 1, rsh |-> 1, ttl0 |-> 0],now |-> 0,smp |-> <<[size |-> 0, ttl |-> 0], [size |-> 0, ttl |-> 0]>>,idx |-> <<1, 1>>,prog |-> <<<<[k |-> 0, v |-> 0, a |-> 0, d |-> 0, op |-> "clean", p |-> 0, ks |-> <<>>]>>, <<[k |-> 0, v |-> 4, a |-> 3, d |-> 5, op |-> "insr", p |-> 0, ks |-> <<1, 2>>]>>>>]),
    ([st |-> [size |-> 2, ttl |-> 0, store |-> <<4, 4>>, cnt |-> <<0, 0>>, rec |-> <<2, 1>>, queue |-> <<>>, stamp |-> <<0, 0>>, dl |-> <<5, 5>>, unr |-> {}],hist |-> <<<<"inv", 2, 1, 0>>, <<"inv", 1, 1, 0>>, <<"com", 2, 1, 2>>>>,pc |-> <<"parked", "idle">>,cfg |-> [kind |-> "tlru", cap |-> 2, tick |-> 2, rnum |-> 1, rsh |-> 1, ttl0 |-> 0],now |-> 0,smp |-> <<[size |-> 0, ttl |-> 0], [size |-> 0, ttl |-> 0]>>,idx |-> <<1, 2>>,prog |-> <<<<[k |-> 0, v |-> 0, a |-> 0, d |-> 0, op |-> "clean", p |-> 0, ks |-> <<>>]>>, <<[k |-> 0, v |-> 4, a |-> 3, d |-> 5, op |-> "insr", p |-> 0, ks |-> <<1, 2>>]>>>>]),
    ([st |-> [size |-> 2, ttl |-> 0, store |-> <<4, 4>>, cnt |-> <<0, 0>>, rec |-> <<2, 1>>, queue |-> <<>>, stamp |-> <<0, 0>>, dl |-> <<5, 5>>, unr |-> {}],hist |-> <<<<"inv", 2, 1, 0>>, <<"inv", 1, 1, 0>>, <<"com", 2, 1, 2>>, <<"com", 1, 1, -2>>>>,pc |-> <<"idle", "idle">>,cfg |-> [kind |-> "tlru", cap |-> 2, tick |-> 2, rnum |-> 1, rsh |-> 1, ttl0 |-> 0],now |-> 0,smp |-> <<[size |-> 0, ttl |-> 0], [size |-> 0, ttl |-> 0]>>,idx |-> <<2, 2>>,prog |-> <<<<[k |-> 0, v |-> 0, a |-> 0, d |-> 0, op |-> "clean", p |-> 0, ks |-> <<>>]>>, <<[k |-> 0, v |-> 4, a |-> 3, d |-> 5, op |-> "insr", p |-> 0, ks |-> <<1, 2>>]>>>>])
    >>
----


=============================================================================

---- CONFIG Conc_TTrace_1791026393 ----
CONSTANTS
    Keys = { 1 , 2 }
    Strict = { }
    CKind = "tlru"
    Threads = { 1 , 2 }
    CallsPer = 1
    CCap = 2
    Pinned = TRUE
    Emit = FALSE

INVARIANT
    _inv

CHECK_DEADLOCK
    \* CHECK_DEADLOCK off because of PROPERTY or INVARIANT above.
    FALSE

INIT
    _init

NEXT
    _next

CONSTANT
    _TETrace <- _trace

ALIAS
    _expression
=============================================================================
\* Generated on Sat Oct 03 11:19:57 UTC 2026