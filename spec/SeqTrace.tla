------------------------------ MODULE SeqTrace ------------------------------
(***************************************************************************)
(* The judge: validates a log recorded from the real containers (ndjson,   *)
(* one event per public call, written by harness/exec) against the         *)
(* operational specification restricted to the property tags in `Strict`.  *)
(*                                                                         *)
(* For every logged call the outcome parameters of the specification       *)
(* action are bound to what the code did (return value, which live keys    *)
(* disappeared from the side-effect-free projection, size() afterwards);   *)
(* the tagged judgements then act as checks.  Afterwards the observable    *)
(* part of the state is resynchronised to the projection while the hidden  *)
(* part (recency order, insertion order, idle stamps, deadlines, possibly  *)
(* unreaped set) follows the specification.  A log is accepted iff every   *)
(* line can be consumed.                                                   *)
(***************************************************************************)
EXTENDS Cappuccino, Json, IOUtils

Tr == ndJsonDeserialize(IOEnv.TRACE)

VARIABLE l      \* index of the next line to consume

tvars == <<cfg, now, st, l>>

AnyOf(tags) == Strict \cap tags # {}
JJ(tags, phi) == AnyOf(tags) => phi

CfgOf(e) == [kind |-> e.kind, cap |-> e.cap, tick |-> e.tick, rnum |-> e.rnum,
             rsh |-> e.rsh, ttl0 |-> e.ttl]
NoCfg == [kind |-> "none", cap |-> 0, tick |-> 1, rnum |-> 1, rsh |-> 0, ttl0 |-> 0]

(* The projection taken after the call with side-effect-free lookups.      *)
\* obs is a list of <<key, value, count>> with distinct keys
ObsKeys(e) == {e.obs[i][1] : i \in 1..Len(e.obs)}
ObsAt(e, x) == e.obs[CHOOSE i \in 1..Len(e.obs) : e.obs[i][1] = x]
ObsV(e)    == LET ks == ObsKeys(e) IN [x \in Keys |-> IF x \in ks THEN ObsAt(e, x)[2] ELSE None]
ObsC(e)    == LET ks == ObsKeys(e) IN [x \in Keys |-> IF x \in ks THEN ObsAt(e, x)[3] ELSE 0]
Skip(e)    == {e.skip[i] : i \in 1..Len(e.skip)}
Probed(e)  == Keys \ Skip(e)

Val(c, v)  == IF c.kind = "utset" THEN 1 ELSE v
KvOf(c, e) == [i \in 1..Len(e.kv) |-> <<e.kv[i][1], Val(c, e.kv[i][2]), e.kv[i][3]>>]
KsOf(e)    == [i \in 1..Len(e.kv) |-> e.kv[i][1]]
RlOf(e)    == [i \in 1..Len(e.rl) |-> <<e.rl[i][1], e.rl[i][2]>>]

Gone(e, s) == LET ov == ObsV(e) IN {x \in Live(s) \cap Probed(e) : ov[x] = None}

\* Logs of free-running threads cannot read size() after every call (size = -1): the size the
\* specification expects is carried instead (those runs have no expiry and no eviction).
SzOr(e, expected) == IF e.size >= 0 THEN e.size ELSE expected

(* Observable part := what the code showed; hidden part := specification.  *)
Resync(c, e, s2) ==
  LET ov == ObsV(e)  oc == ObsC(e)  sk == Skip(e)
      s3 == [s2 EXCEPT !.store = [x \in Keys |-> IF x \in sk THEN s2.store[x] ELSE ov[x]],
                       !.cnt   = IF c.kind \in CntKinds
                                 THEN [x \in Keys |-> IF x \in sk THEN s2.cnt[x] ELSE oc[x]]
                                 ELSE s2.cnt,
                       \* size2: size() read once more after the projection (its lookups may reap)
                       !.size  = IF e.size2 >= 0 THEN e.size2 ELSE s2.size]
  IN NormUnr(Repair(c, s3))

(* size() on a line without a call of its own (clock step, pure observation): unchanged.  The   *)
(* projection's own lookups may reap on tlru/utlru (an implementation is free to reap on any     *)
(* call); the log therefore carries size() once more after the projection (size2), which is what *)
(* the state is resynchronised to.                                                               *)
ProjSize(c, s, e) == e.size >= 0 => e.size = s.size

(* Checks every call shares: the projection equals the expected state.     *)
\* (the projection functions are built once per predicate, not once per key)
ValuesEq(e, s2) == LET ov == ObsV(e) IN \A x \in Probed(e) : ov[x] = s2.store[x]
LiveEq(e, s2)   == LET ov == ObsV(e) IN \A x \in Probed(e) : (ov[x] # None) = (s2.store[x] # None)
CntEq(c, e, s2) == c.kind \in CntKinds =>
                      LET oc == ObsC(e) IN \A x \in Probed(e) : (s2.store[x] # None => oc[x] = s2.cnt[x])
Observers(c, e) ==
  JJ({"C02"}, e.size >= 0 => (/\ (e.empty = 1) = (e.size = 0)
                              /\ c.kind \in CacheKinds => e.cap = c.cap
                              /\ e.size2 <= e.size))       \* the projection can only discard

-----------------------------------------------------------------------------
(* A live key that the projection could not probe (the harness cannot rule out that it  *)
(* is expired, see exec.cpp) may or may not have been the victim: both are tried.        *)
GoneSets(e, s) ==
  LET g0 == Gone(e, s)
      u  == Live(s) \cap Skip(e)
  IN {g0} \cup {g0 \cup {x} : x \in u}

TrInsert(c, t, s, e) ==
  \E g \in GoneSets(e, s) :
  LET v   == Val(c, e.v)
      out == [ret |-> e.ret = 1, gone |-> g,
              sz |-> SzOr(e, NLive(s) + (IF e.ret = 1 /\ s.store[e.k] = None THEN 1 ELSE 0) - Cardinality(g))]
      s2  == ElemInsert(c, t, s, e.k, v, e.a, e.d, out)
      aging == InsertWillAge(c, s, e.k, out) /\ AgeAll(c, t, s) # s
  IN /\ OkInsert(Strict, c, t, s, e.k, e.a, e.d, out)
     /\ JJ({"C01", "C09"}, ValuesEq(e, s2))
     /\ JJ({"C05"}, c.kind \in TtlKinds => LiveEq(e, s2))
     \* C05: "... unless it was erased, cleared or evicted as C03 allows"
     /\ JJ({"C05"}, c.kind \in TtlKinds => OkInsert({"C03"}, c, t, s, e.k, e.a, e.d, out))
     /\ JJ({IF aging THEN "C14" ELSE "C11"}, CntEq(c, e, s2))
     /\ JJ({"C19"}, ~out.ret => (ValuesEq(e, s) /\ CntEq(c, e, s)))
     /\ st' = Resync(c, e, s2)

TrErase(c, t, s, e) ==
  LET out == [ret |-> e.ret = 1,
              \* an erased key the projection could not probe is taken to be gone iff the call said so
              gone |-> Gone(e, s) \cup (IF e.ret = 1 /\ e.k \in Skip(e) /\ s.store[e.k] # None THEN {e.k} ELSE {}),
              sz |-> SzOr(e, NLive(s) - (IF e.ret = 1 /\ s.store[e.k] # None THEN 1 ELSE 0))]
      s2  == ElemErase(c, t, s, e.k, out)
  IN /\ OkErase(Strict, c, t, s, e.k, out)
     /\ JJ({"C01"}, ValuesEq(e, s2))
     /\ JJ({"C05"}, c.kind \in TtlKinds => (LiveEq(e, s2) /\ Gone(e, s) \subseteq {e.k}))
     /\ JJ({"C11"}, CntEq(c, e, s2))
     /\ JJ({"C19"}, ~out.ret => (ValuesEq(e, s) /\ CntEq(c, e, s)))
     /\ st' = Resync(c, e, s2)

TrFind(c, t, s, e, wc) ==
  LET peek == e.p = 1
      out  == [val |-> e.ret, rc |-> e.rc, wc |-> wc, sz |-> SzOr(e, s.size)]
      s2   == ElemFind(c, t, s, e.k, peek, out)
  IN /\ OkFind(Strict, c, t, s, e.k, peek, out)
     /\ JJ({"C03"}, Gone(e, s) = {})
     /\ JJ({"C01"}, ValuesEq(e, s2))
     /\ JJ({"C05"}, c.kind \in TtlKinds => LiveEq(e, s2))
     /\ JJ({"C11"}, CntEq(c, e, s2))
     /\ JJ({"C19"}, (peek \/ e.ret = None) => (ValuesEq(e, s) /\ CntEq(c, e, s)))
     /\ st' = Resync(c, e, s2)

(* Range calls: some run of the fold must explain the result and the projection. *)
RangeMatch(c, e, x, accOk) ==
  /\ LiveEq(e, x.st)
  /\ JJ({"C02", "C03", "C16", "C17", "C18"}, e.size >= 0 => x.st.size = e.size)
  /\ accOk
  /\ JJ({"C01", "C18", "C04", "C05", "C19"}, ValuesEq(e, x.st))
  /\ JJ({"C11", "C14", "C18", "C19"}, CntEq(c, e, x.st))

TrInsertRange(c, t, s, e) ==
  LET F == FoldInsert(Strict, c, t, {[st |-> z, acc |-> 0] : z \in RangeStarts(c, s)}, KvOf(c, e), e.a, 1)
  IN \E x \in F : /\ RangeMatch(c, e, x, JJ({"C09", "C18"}, x.acc = e.ret))
                  /\ st' = Resync(c, e, x.st)

TrEraseRange(c, t, s, e) ==
  LET F == FoldErase(Strict, c, t, {[st |-> z, acc |-> 0] : z \in RangeStarts(c, s)}, KsOf(e), 1)
  IN \E x \in F : /\ RangeMatch(c, e, x, JJ({"C18", "SPEC"}, x.acc = e.ret))
                  /\ st' = Resync(c, e, x.st)

TrFindRange(c, t, s, e) ==
  LET F == FoldFind(Strict, c, t, {[st |-> z, acc |-> <<>>] : z \in RangeStarts(c, s)}, KsOf(e), e.p = 1, 1)
  IN \E x \in F : /\ RangeMatch(c, e, x,
                        JJ({"C01", "C03", "C04", "C05", "C18"} \cup (IF c.kind \in UtKinds THEN {"C17"} ELSE {}),
                           x.acc = RlOf(e)))
                  /\ st' = Resync(c, e, x.st)

TrClean(c, t, s, e) ==
  LET out == [ret |-> e.ret, gone |-> Gone(e, s), sz |-> SzOr(e, NLive(s))]
      s2  == ElemClean(c, t, s, out)
  IN /\ OkClean(Strict, c, t, s, out)
     /\ JJ({"C05"}, Gone(e, s) = {})          \* cleaning expires nothing early
     /\ JJ({"C01", "C17"}, ValuesEq(e, s2))
     /\ st' = Resync(c, e, s2)

TrAge(c, t, s, e) ==
  LET out == [ret |-> e.ret, sz |-> SzOr(e, s.size)]
      s2  == ElemAge(c, t, s, out)
  IN /\ OkAge(Strict, c, t, s, out)
     /\ JJ({"C03"}, Gone(e, s) = {})
     /\ JJ({"C01"}, ValuesEq(e, s2))
     /\ JJ({"C14"}, CntEq(c, e, s2))
     /\ st' = Resync(c, e, s2)

TrUttl(c, t, s, e) ==
  LET out == [sz |-> SzOr(e, s.size)]
      s2  == ElemUttl(c, t, s, e.d, out)
  IN /\ OkUttl(Strict, c, t, s, out)
     /\ JJ({"C03", "C05"}, Gone(e, s) = {})
     /\ JJ({"C01"}, ValuesEq(e, s2))
     /\ st' = Resync(c, e, s2)

TrClear(c, t, s, e) ==
  LET s2 == ElemClear(c, t, s)
  IN /\ JJ({"C20", "C01"}, ValuesEq(e, s2))
     /\ JJ({"C20", "C02"}, e.size >= 0 => e.size = 0)
     /\ st' = Resync(c, e, s2)

TrTick(c, t2, s, e) ==
  LET s2 == ElemTick(c, t2, s)
  IN /\ JJ({"C02"}, ProjSize(c, s, e))
     /\ JJ({"C05", "C03"}, LiveEq(e, s2))
     /\ JJ({"C01"}, ValuesEq(e, s2))
     /\ JJ({"C11", "C14"}, CntEq(c, e, s2))
     /\ st' = Resync(c, e, s2)

\* A pure observation.  For ut_map / ut_set the probes are lookups, i.e. a call that purges.
TrObs(c, t, s, e) ==
  LET s2 == RangeStart(c, s) IN
  /\ JJ({"C02", "C17"}, ProjSize(c, s2, e))
  /\ JJ({"C03", "C05"}, LiveEq(e, s2))
  /\ JJ({"C01"}, ValuesEq(e, s2))
  /\ JJ({"C11", "C14"}, CntEq(c, e, s2))
  /\ st' = Resync(c, e, s2)

\* The observers as calls (concurrent logs).  They change nothing and (on ut_map / ut_set) do not
\* purge: what they return is the size before the projection's own lookups ran.
TrObserver(c, t, s, e) ==
  LET lo == s.size
      hi == s.size IN
  /\ JJ({"C02", "C06"}, CASE e.op = "size"     -> lo <= e.ret /\ e.ret <= hi
                          [] e.op = "empty"    -> (e.ret = 1 => lo = 0) /\ (e.ret = 0 => hi > 0)
                          [] e.op = "capacity" -> (c.kind \in CacheKinds => e.ret = c.cap))
  /\ TrObs(c, t, s, e)

-----------------------------------------------------------------------------
StepCfg(e) ==
  /\ cfg' = CfgOf(e)
  /\ now' = e.now
  /\ st'  = InitState(e.ttl)

StepOp(e) ==
  LET c == cfg  s == st IN
  /\ cfg' = cfg
  /\ Observers(c, e)
  /\ IF e.op = "tick"
     THEN /\ e.now = now + e.d
          /\ now' = e.now
          /\ TrTick(c, e.now, s, e)
     ELSE /\ e.now = now
          /\ now' = now
          /\ CASE e.op = "ins"   -> TrInsert(c, now, s, e)
               [] e.op = "era"   -> TrErase(c, now, s, e)
               [] e.op = "find"  -> TrFind(c, now, s, e, FALSE)
               [] e.op = "findc" -> TrFind(c, now, s, e, TRUE)
               [] e.op = "insr"  -> TrInsertRange(c, now, s, e)
               [] e.op = "erar"  -> TrEraseRange(c, now, s, e)
               [] e.op = "findr" -> TrFindRange(c, now, s, e)
               [] e.op = "findf" -> TrFindRange(c, now, s, e)
               [] e.op = "clean" -> TrClean(c, now, s, e)
               [] e.op = "age"   -> TrAge(c, now, s, e)
               [] e.op = "uttl"  -> TrUttl(c, now, s, e)
               [] e.op = "clear" -> TrClear(c, now, s, e)
               [] e.op = "obs"   -> TrObs(c, now, s, e)
               [] e.op \in {"size", "empty", "capacity"} -> TrObserver(c, now, s, e)

TraceInit ==
  /\ l = 1
  /\ cfg = NoCfg
  /\ now = 0
  /\ st = InitState(0)

TraceNext ==
  /\ l <= Len(Tr)
  /\ l' = l + 1
  /\ LET e == Tr[l] IN
       CASE e.e = "cfg"     -> StepCfg(e)
         [] e.e = "op"      -> StepOp(e)
         [] e.e = "destroy" -> UNCHANGED <<cfg, now, st>>

TraceSpec == TraceInit /\ [][TraceNext]_tvars

(* Accepted iff some behaviour consumed every line.  The depth reached is  *)
(* printed so that a rejection names the first line with no matching step. *)
TraceAccepted ==
  LET d == TLCGet("stats").diameter IN
  /\ PrintT(<<"TRACE-DEPTH", d, Len(Tr)>>)
  /\ d - 1 = Len(Tr)

=============================================================================
