----------------------------- MODULE PairTrace -----------------------------
(***************************************************************************)
(* The literal two-run forms of C18, C19 and C20 (DESIGN.md section 5).    *)
(*                                                                         *)
(* Two logs recorded from two instances of the same container type are     *)
(* compared group by group.  tools/pairs.py aligns them: every line of the *)
(* input is one group [g, kind, mode, A, B] where A and B are the events   *)
(* (same format as SeqTrace) that the two instances executed for it:       *)
(*   C18  A = one range call,           B = the same elements as singles   *)
(*   C19  A = history with no-effect calls spliced in, B = without them    *)
(*        (a group whose B part is empty is a spliced no-effect call)      *)
(*   C20  A = prefix; clear(),          B = freshly constructed container  *)
(*        (group 0 = the prefix, not compared), then equal continuations   *)
(* Equal means: same results and same side-effect-free projection.         *)
(***************************************************************************)
EXTENDS Naturals, Sequences, FiniteSets, TLC, Json, IOUtils

Tr == ndJsonDeserialize(IOEnv.TRACE)

VARIABLE l
pvars == <<l>>

TtlKinds == {"tlru", "utlru", "utmap", "utset"}

SetOf(seq) == {seq[i] : i \in 1..Len(seq)}
\* projection restricted to the keys both sides could probe
ObsOf(e, skip) == {x \in SetOf(e.obs) : x[1] \notin skip}
ObsEq(ea, eb) ==
  LET sk == SetOf(ea.skip) \cup SetOf(eb.skip) IN ObsOf(ea, sk) = ObsOf(eb, sk)

\* size() may differ only where the property says so: C19 on ttl containers (a no-effect
\* call may have discarded expired entries)
SizeEq(g, ea, eb) ==
  \/ (g.mode = "C19" /\ g.kind \in TtlKinds)
  \* C18 on tlru / utlru: a range call and its single calls may discard expired entries at different
  \* moments (e.g. once per call), which shows in size() only; ut_map / ut_set purge deterministically
  \/ (g.mode = "C18" /\ g.kind \in {"tlru", "utlru"})
  \/ (ea.size = eb.size /\ ea.empty = eb.empty)

\* results of the same single call on both sides
RetEq(g, ea, eb) ==
  /\ ea.op = eb.op /\ ea.k = eb.k /\ ea.p = eb.p /\ ea.a = eb.a
  /\ ea.rc = eb.rc
  /\ ea.rl = eb.rl
  /\ \/ ea.ret = eb.ret
     \* C19's stated exception: a no-effect call may have discarded expired entries, which shows
     \* in size() and in calls that count or address expired entries
     \/ (g.mode = "C19" /\ g.kind \in TtlKinds /\ ea.op \in {"era", "erar", "clean"})
     \* C18 on tlru / utlru: the two runs may have discarded expired entries at different moments
     \/ (g.mode = "C18" /\ g.kind \in {"tlru", "utlru"} /\ ea.op \in {"era", "erar", "clean"})

SameEv(g, ea, eb) == RetEq(g, ea, eb) /\ ObsEq(ea, eb) /\ SizeEq(g, ea, eb)

Count1(evs) == Cardinality({i \in 1..Len(evs) : evs[i].ret = 1})

\* C18: one range call on A against its elements as single calls on B
RangeEq(g, ea, B) ==
  LET last == B[Len(B)] IN
  /\ Len(ea.kv) = Len(B)
  /\ \A i \in 1..Len(B) : B[i].k = ea.kv[i][1]
  /\ CASE ea.op = "insr" -> (\A i \in 1..Len(B) : B[i].op = "ins") /\ ea.ret = Count1(B)
       \* tlru / utlru: whether erasing an expired, not yet removed entry counts is implementation
       \* freedom (it may already have been discarded), so only the effect is compared there
       [] ea.op = "erar" -> (\A i \in 1..Len(B) : B[i].op = "era")
                            /\ (g.kind \in {"tlru", "utlru"} \/ ea.ret = Count1(B))
       [] ea.op \in {"findr", "findf"} ->
             /\ \A i \in 1..Len(B) : B[i].op = "find"
             /\ Len(ea.rl) = Len(B)
             /\ \A i \in 1..Len(B) : ea.rl[i][1] = B[i].k /\ ea.rl[i][2] = B[i].ret
       [] OTHER -> FALSE
  /\ ObsEq(ea, last)
  /\ SizeEq(g, ea, last)

IsRange(e) == e.op \in {"insr", "erar", "findr", "findf"}

GroupOk(g) ==
  CASE g.g = 0 -> TRUE                                        \* set-up, not compared
    [] Len(g.B) = 0 -> TRUE                                   \* spliced call / empty range
    [] Len(g.A) = 1 /\ IsRange(g.A[1]) /\ ~(Len(g.B) = 1 /\ IsRange(g.B[1])) -> RangeEq(g, g.A[1], g.B)
    [] Len(g.A) = Len(g.B) -> \A i \in 1..Len(g.A) : SameEv(g, g.A[i], g.B[i])
    [] OTHER -> FALSE

PairInit == l = 1
PairNext == l <= Len(Tr) /\ GroupOk(Tr[l]) /\ l' = l + 1
PairSpec == PairInit /\ [][PairNext]_pvars

TraceAccepted ==
  LET d == TLCGet("stats").diameter IN
  /\ PrintT(<<"TRACE-DEPTH", d, Len(Tr)>>)
  /\ d - 1 = Len(Tr)
=============================================================================
