---- MODULE MCCap_TTrace_1791009505 ----
EXTENDS MCCap, Sequences, TLCExt, Toolbox, Naturals, TLC

_expression ==
    LET MCCap_TEExpression == INSTANCE MCCap_TEExpression
    IN MCCap_TEExpression!expression
----

_trace ==
    LET MCCap_TETrace == INSTANCE MCCap_TETrace
    IN MCCap_TETrace!trace
----

_inv ==
    ~(
        TLCGet("level") = Len(_TETrace)
        /\
        gh = ([step |-> 64, wval |-> <<0, 1, 0>>, wstep |-> <<0, 0, 0>>, use |-> <<0, 0, 0>>, ins |-> <<0, 0, 0>>, uses |-> <<0, 0, 0>>, wtime |-> <<0, 0, 0>>, wttl |-> <<0, 1, 0>>, idle |-> <<0, 0, 0>>, hits |-> {}, evOk |-> TRUE])
        /\
        st = ([store |-> <<0, 0, 0>>, rec |-> <<>>, queue |-> <<>>, cnt |-> <<0, 0, 0>>, stamp |-> <<0, 0, 0>>, dl |-> <<0, 0, 0>>, size |-> 0, ttl |-> 1, unr |-> {}])
        /\
        cfg = ([kind |-> "utlru", cap |-> 1, tick |-> 2, rnum |-> 1, rsh |-> 1, ttl0 |-> 1])
        /\
        now = (1)
        /\
        lastOp = ([op |-> "era", k |-> 2])
    )
----

_init ==
    /\ lastOp = _TETrace[1].lastOp
    /\ cfg = _TETrace[1].cfg
    /\ gh = _TETrace[1].gh
    /\ now = _TETrace[1].now
    /\ st = _TETrace[1].st
----

_next ==
    /\ \E i,j \in DOMAIN _TETrace:
        /\ \/ /\ j = i + 1
              /\ i = TLCGet("level")
        /\ lastOp  = _TETrace[i].lastOp
        /\ lastOp' = _TETrace[j].lastOp
        /\ cfg  = _TETrace[i].cfg
        /\ cfg' = _TETrace[j].cfg
        /\ gh  = _TETrace[i].gh
        /\ gh' = _TETrace[j].gh
        /\ now  = _TETrace[i].now
        /\ now' = _TETrace[j].now
        /\ st  = _TETrace[i].st
        /\ st' = _TETrace[j].st

\* Uncomment the ASSUME below to write the states of the error trace
\* to the given file in Json format. Note that you can pass any tuple
\* to `JsonSerialize`. For example, a sub-sequence of _TETrace.
    \* ASSUME
    \*     LET J == INSTANCE Json
    \*         IN J!JsonSerialize("MCCap_TTrace_1791009505.json", _TETrace)

=============================================================================

 Note that you can extract this module `MCCap_TEExpression`
  to a dedicated file to reuse `expression` (the module in the 
  dedicated `MCCap_TEExpression.tla` file takes precedence 
  over the module `MCCap_TEExpression` below).

---- MODULE MCCap_TEExpression ----
EXTENDS MCCap, Sequences, TLCExt, Toolbox, Naturals, TLC

expression == 
    [
        \* To hide variables of the `MCCap` spec from the error trace,
        \* remove the variables below.  The trace will be written in the order
        \* of the fields of this record.
        lastOp |-> lastOp
        ,cfg |-> cfg
        ,gh |-> gh
        ,now |-> now
        ,st |-> st
        
        \* Put additional constant-, state-, and action-level expressions here:
        \* ,_stateNumber |-> _TEPosition
        \* ,_lastOpUnchanged |-> lastOp = lastOp'
        
        \* Format the `lastOp` variable as Json value.
        \* ,_lastOpJson |->
        \*     LET J == INSTANCE Json
        \*     IN J!ToJson(lastOp)
        
        \* Lastly, you may build expressions over arbitrary sets of states by
        \* leveraging the _TETrace operator.  For example, this is how to
        \* count the number of times a spec variable changed up to the current
        \* state in the trace.
        \* ,_lastOpModCount |->
        \*     LET F[s \in DOMAIN _TETrace] ==
        \*         IF s = 1 THEN 0
        \*         ELSE IF _TETrace[s].lastOp # _TETrace[s-1].lastOp
        \*             THEN 1 + F[s-1] ELSE F[s-1]
        \*     IN F[_TEPosition - 1]
    ]

=============================================================================



Parsing and semantic processing can take forever if the trace below is long.
 In this case, it is advised to uncomment the module below to deserialize the
 trace from a generated binary file.

\*
\*---- MODULE MCCap_TETrace ----
\*EXTENDS MCCap, IOUtils, TLC
\*
\*trace == IODeserialize("MCCap_TTrace_1791009505.bin", TRUE)
\*
\*=============================================================================
\*

---- MODULE MCCap_TETrace ----
EXTENDS MCCap, TLC

trace == 
    <<
    ([gh |-> [step |-> 16, wval |-> <<0, 0, 0>>, wstep |-> <<0, 0, 0>>, use |-> <<0, 0, 0>>, ins |-> <<0, 0, 0>>, uses |-> <<0, 0, 0>>, wtime |-> <<0, 0, 0>>, wttl |-> <<0, 0, 0>>, idle |-> <<0, 0, 0>>, hits |-> {}, evOk |-> TRUE],st |-> [store |-> <<0, 0, 0>>, rec |-> <<>>, queue |-> <<>>, cnt |-> <<0, 0, 0>>, stamp |-> <<0, 0, 0>>, dl |-> <<0, 0, 0>>, size |-> 0, ttl |-> 1, unr |-> {}],cfg |-> [kind |-> "utlru", cap |-> 1, tick |-> 2, rnum |-> 1, rsh |-> 1, ttl0 |-> 1],now |-> 0,lastOp |-> [op |-> "init"]]),
    ([gh |-> [step |-> 32, wval |-> <<0, 1, 0>>, wstep |-> <<0, 32, 0>>, use |-> <<0, 32, 0>>, ins |-> <<0, 32, 0>>, uses |-> <<0, 1, 0>>, wtime |-> <<0, 0, 0>>, wttl |-> <<0, 1, 0>>, idle |-> <<0, 0, 0>>, hits |-> {}, evOk |-> TRUE],st |-> [store |-> <<0, 1, 0>>, rec |-> <<2>>, queue |-> <<>>, cnt |-> <<0, 0, 0>>, stamp |-> <<0, 0, 0>>, dl |-> <<0, 1, 0>>, size |-> 1, ttl |-> 1, unr |-> {}],cfg |-> [kind |-> "utlru", cap |-> 1, tick |-> 2, rnum |-> 1, rsh |-> 1, ttl0 |-> 1],now |-> 0,lastOp |-> [op |-> "ins", v |-> 1, k |-> 2, d |-> 0, a |-> 1]]),
    ([gh |-> [step |-> 48, wval |-> <<0, 1, 0>>, wstep |-> <<0, 0, 0>>, use |-> <<0, 0, 0>>, ins |-> <<0, 0, 0>>, uses |-> <<0, 0, 0>>, wtime |-> <<0, 0, 0>>, wttl |-> <<0, 1, 0>>, idle |-> <<0, 0, 0>>, hits |-> {}, evOk |-> TRUE],st |-> [store |-> <<0, 0, 0>>, rec |-> <<>>, queue |-> <<>>, cnt |-> <<0, 0, 0>>, stamp |-> <<0, 0, 0>>, dl |-> <<0, 1, 0>>, size |-> 1, ttl |-> 1, unr |-> {2}],cfg |-> [kind |-> "utlru", cap |-> 1, tick |-> 2, rnum |-> 1, rsh |-> 1, ttl0 |-> 1],now |-> 1,lastOp |-> [op |-> "tick", d |-> 1]]),
    ([gh |-> [step |-> 64, wval |-> <<0, 1, 0>>, wstep |-> <<0, 0, 0>>, use |-> <<0, 0, 0>>, ins |-> <<0, 0, 0>>, uses |-> <<0, 0, 0>>, wtime |-> <<0, 0, 0>>, wttl |-> <<0, 1, 0>>, idle |-> <<0, 0, 0>>, hits |-> {}, evOk |-> TRUE],st |-> [store |-> <<0, 0, 0>>, rec |-> <<>>, queue |-> <<>>, cnt |-> <<0, 0, 0>>, stamp |-> <<0, 0, 0>>, dl |-> <<0, 0, 0>>, size |-> 0, ttl |-> 1, unr |-> {}],cfg |-> [kind |-> "utlru", cap |-> 1, tick |-> 2, rnum |-> 1, rsh |-> 1, ttl0 |-> 1],now |-> 1,lastOp |-> [op |-> "era", k |-> 2]])
    >>
----


=============================================================================

---- CONFIG MCCap_TTrace_1791009505 ----
CONSTANTS
    Keys = { 1 , 2 , 3 }
    Strict = { }
    MCKind = "utlru"
    Vals = { 1 , 2 }
    Caps = { 1 , 2 }
    TtlArgs = { 0 , 1 , 3 }
    TickSteps = { 1 , 2 }
    MaxRange = 2
    MaxCnt = 4
    Emit = FALSE

INVARIANT
    _inv

CHECK_DEADLOCK
    \* CHECK_DEADLOCK off because of PROPERTY or INVARIANT above.
    FALSE

INIT
    _init

NEXT
    _next

CONSTANT
    _TETrace <- _trace

ALIAS
    _expression
=============================================================================
\* Generated on Sat Oct 03 06:38:27 UTC 2026