------------------------------- MODULE RrStat -------------------------------
(***************************************************************************)
(* C15, the spread half: over many evictions of one rr_cache no resident   *)
(* position is immune and none is always chosen.  The judge (SeqTrace) is  *)
(* extended by two history variables: `order` (resident keys by insertion  *)
(* time, maintained from the specification's own view of the store) and    *)
(* `hits[r]` = number of evictions whose victim had insertion rank r.      *)
(* At the last line the verdict is printed.  The property asks for spread, *)
(* not uniformity: with N evictions at capacity C every rank must have     *)
(* been hit at least N/(10C) and at most N(1 - 1/(10C)) times.  A uniform  *)
(* choice misses these bounds with probability < 1e-30 for N >= 4000.      *)
(***************************************************************************)
EXTENDS SeqTrace

VARIABLES order, hits

svars == <<cfg, now, st, l, order, hits>>

MaxCap == 16

StatInit == TraceInit /\ order = <<>> /\ hits = [r \in 1..MaxCap |-> 0]

RankOf(seq, x) == CHOOSE i \in 1..Len(seq) : seq[i] = x

Total(h) == LET RECURSIVE S(_) S(i) == IF i = 0 THEN 0 ELSE h[i] + S(i - 1) IN S(MaxCap)

SpreadOk(h, cap) ==
  LET n == Total(h) IN
  \A r \in 1..cap : h[r] * 10 * cap >= n /\ h[r] * 10 * cap <= n * (10 * cap - 1)

StatNext ==
  /\ TraceNext
  /\ LET e == Tr[l]
         L  == Live(st)
         L2 == Live(st')
         gone == L \ L2
         kept == SelectSeq(order, LAMBDA x : x \in L2)
         new  == L2 \ {order[i] : i \in 1..Len(order)}
         evict == e.e = "op" /\ e.op = "ins" /\ Cardinality(gone) = 1 /\ st.size = cfg.cap
     IN /\ order' = IF e.e = "cfg" THEN <<>> ELSE kept \o SetToSeq(new)
        /\ hits' = IF evict /\ (\A x \in gone : x \in {order[i] : i \in 1..Len(order)})
                   THEN LET r == RankOf(order, CHOOSE x \in gone : TRUE) IN [hits EXCEPT ![r] = @ + 1]
                   ELSE hits
        /\ (l = Len(Tr)) => PrintT(<<"RR-SPREAD", cfg'.cap, Total(hits'), SpreadOk(hits', cfg'.cap), hits'>>)

StatSpec == StatInit /\ [][StatNext]_svars
=============================================================================
