------------------------------- MODULE MCCap -------------------------------
(***************************************************************************)
(* Exhaustive model of the operational specification for TLC: every public *)
(* call with every argument from small domains, every outcome the          *)
(* judgements allow (T = AllTags).  Declarative formulations of the        *)
(* properties are checked over ghost history variables (`gh`), which are   *)
(* hidden from the fingerprint by the VIEW together with absolute time.    *)
(*                                                                         *)
(* Every generated transition is also printed as JSON (ACTION_CONSTRAINT   *)
(* EmitEdge): tools/mccheck.py turns the graph into call sequences that    *)
(* cover every transition and are replayed on the real containers.         *)
(***************************************************************************)
EXTENDS Cappuccino, Json

CONSTANTS MCKind,     \* container kind explored by this run
          Vals,       \* values for single inserts
          Caps,       \* capacities
          TtlArgs,    \* per-call ttl arguments (tlru) / configured ttls (utlru, utmap, utset)
          TickSteps,  \* clock steps
          MaxRange,   \* maximal length of range arguments
          MaxCnt,     \* state constraint on use counts
          Emit        \* TRUE: print every transition

VARIABLES lastOp,  \* the call that produced this state (label only)
          gh       \* ghost history for the declarative properties

mvars == <<cfg, now, st, lastOp, gh>>

Ratios == IF MCKind = "lfuda" THEN {<<0, 0>>, <<1, 1>>, <<1, 0>>} ELSE {<<1, 1>>}
Ttl0s  == IF MCKind \in {"utlru", "utmap", "utset"} THEN TtlArgs ELSE {0}
MCCaps == IF MCKind \in UtKinds THEN {0} ELSE Caps

Cfgs == {[kind |-> MCKind, cap |-> c, tick |-> 2, rnum |-> r[1], rsh |-> r[2], ttl0 |-> t] :
            c \in MCCaps, r \in Ratios, t \in Ttl0s}

DArgs  == IF MCKind = "tlru" THEN TtlArgs ELSE {0}
Peeks  == IF MCKind \in PeekKinds THEN BOOLEAN ELSE {FALSE}
MVals  == IF MCKind = "utset" THEN {1} ELSE Vals

\* ghost history ------------------------------------------------------------
\* Logical time advances by 16 per call so that positions inside one range call (< 16)
\* can be interleaved without colliding with other calls.
GhInit ==
  [ step    |-> 16,
    wval    |-> ZeroF,   \* value of the latest successful write
    wstep   |-> ZeroF,   \* its logical time (0: never written, or undone since)
    use     |-> ZeroF,   \* logical time of the latest use (insert, update, non-peek hit)
    ins     |-> ZeroF,   \* logical time of the insertion that made the key resident
    uses    |-> ZeroF,   \* uses since that insertion, decayed at aging points (lfu, lfuda)
    wtime   |-> ZeroF,   \* clock reading of the latest successful write
    wttl    |-> ZeroF,   \* ttl in force for it
    idle    |-> ZeroF,   \* lfuda: clock reading of the latest use or aging
    hits    |-> {},      \* <<key, value, count>> the last call reported present
    evOk    |-> TRUE ]   \* the last eviction chose a victim the declarative rules allow

MInit ==
  /\ cfg \in Cfgs
  /\ now = 0
  /\ st = InitState(cfg.ttl0)
  /\ lastOp = [op |-> "init"]
  /\ gh = GhInit

GhStep(g) == [g EXCEPT !.step = @ + 16, !.hits = {}, !.evOk = TRUE]

GhUndo(g, S) ==
  [g EXCEPT !.wstep = [x \in Keys |-> IF x \in S THEN 0 ELSE g.wstep[x]],
            !.ins   = [x \in Keys |-> IF x \in S THEN 0 ELSE g.ins[x]],
            !.uses  = [x \in Keys |-> IF x \in S THEN 0 ELSE g.uses[x]],
            !.use   = [x \in Keys |-> IF x \in S THEN 0 ELSE g.use[x]]]

GhAge(g, c, t, s) ==
  LET I == Idle(c, t, s) IN
  [g EXCEPT !.idle = [x \in Keys |-> IF x \in I THEN t ELSE g.idle[x]],
            !.uses = [x \in Keys |-> IF x \in I THEN AgedCnt(c, g.uses[x]) ELSE g.uses[x]]]

\* Declarative victim rules, stated over the history and evaluated in the state before
\* the eviction (C10, C12, C13, C11/C14, C16).
VictimOk(g, c, s, victims) ==
  \A v \in victims : \A r \in Live(s) \ {v} :
     CASE c.kind = "lru"  -> g.use[v] < g.use[r]
       [] c.kind \in TtlCaches -> (Surplus(s) = 0 => g.use[v] < g.use[r]) /\ Surplus(s) = 0
       [] c.kind = "mru"  -> g.use[v] > g.use[r]
       [] c.kind = "fifo" -> g.ins[v] < g.ins[r]
       [] c.kind \in CntKinds -> g.uses[v] <= g.uses[r]
       [] OTHER -> TRUE

GhInsert(g0, c, t, s, k, v, d, o) ==
  LET g   == GhStep(g0)
      g1  == IF InsertWillAge(c, s, k, o) THEN GhAge(g, c, t, s) ELSE g
      g2  == [GhUndo(g1, o.gone) EXCEPT !.evOk = VictimOk(g1, c, s, o.gone)]
      D   == InsertTtl(c, s, d)
      new == s.store[k] = None
  IN IF ~o.ret THEN g2
     ELSE IF DeadOnArrival(c, s, d) THEN GhUndo(g2, {k})
     ELSE [g2 EXCEPT !.wval[k] = v, !.wstep[k] = g.step, !.wtime[k] = t, !.wttl[k] = D,
                     !.use[k]  = g.step,
                     !.ins[k]  = IF new THEN g.step ELSE g2.ins[k],
                     !.uses[k] = IF new THEN 1 ELSE g2.uses[k] + 1,
                     !.idle[k] = t]

GhErase(g0, k, o) ==
  LET g == GhStep(g0) IN GhUndo(g, o.gone \cup (IF o.ret THEN {k} ELSE {}))

GhFind(g0, t, k, peek, o) ==
  LET g == GhStep(g0) IN
  IF o.val = None THEN g
  ELSE [g EXCEPT !.hits = {<<k, o.val, o.rc>>},
                 !.use[k]  = IF peek THEN @ ELSE g.step,
                 !.uses[k] = IF peek THEN @ ELSE @ + 1,
                 !.idle[k] = IF peek THEN @ ELSE t]

\* After a range call the order / count ghosts are rebuilt from the operational state the
\* fold produced (the element steps are the same functions the single calls use, and those
\* are checked against the ghosts call by call).
PosIn(seq, x) == IF \E i \in 1..Len(seq) : seq[i] = x THEN CHOOSE i \in 1..Len(seq) : seq[i] = x ELSE 0
GhResync(g0, c, s2, t, written) ==
  LET g == GhStep(g0)
      L == Live(s2)
      wt(x) == IF x \in written THEN t ELSE g0.wtime[x] IN
  [g EXCEPT !.wval  = s2.store,
            !.wstep = [x \in Keys |-> IF x \in L THEN g.step ELSE 0],
            !.use   = [x \in Keys |-> IF x \in L THEN g.step - PosIn(s2.rec, x) ELSE 0],
            !.ins   = [x \in Keys |-> IF x \in L THEN g.step - 15 + PosIn(s2.queue, x) ELSE 0],
            !.uses  = [x \in Keys |-> IF x \in L THEN s2.cnt[x] ELSE 0],
            !.idle  = s2.stamp,
            !.wtime = [x \in Keys |-> IF x \in L THEN wt(x) ELSE 0],
            !.wttl  = [x \in Keys |-> IF x \in L /\ c.kind \in TtlKinds THEN s2.dl[x] - wt(x) ELSE 0]]

\* single-key calls -----------------------------------------------------------
DoInsert(k, v, a, d) ==
  \E o \in OutsInsert(AllTags, cfg, now, st, k, a, d) :
     /\ st' = ElemInsert(cfg, now, st, k, v, a, d, o)
     /\ gh' = GhInsert(gh, cfg, now, st, k, v, d, o)
     /\ lastOp' = [op |-> "ins", k |-> k, v |-> v, a |-> a, d |-> d]
     /\ UNCHANGED <<cfg, now>>

DoErase(k) ==
  \E o \in OutsErase(AllTags, cfg, now, st, k) :
     /\ st' = ElemErase(cfg, now, st, k, o)
     /\ gh' = GhErase(gh, k, o)
     /\ lastOp' = [op |-> "era", k |-> k]
     /\ UNCHANGED <<cfg, now>>

DoFind(k, peek, wc) ==
  \E o \in OutsFind(AllTags, cfg, now, st, k, peek, wc) :
     /\ st' = ElemFind(cfg, now, st, k, peek, o)
     /\ gh' = GhFind(gh, now, k, peek, o)
     /\ lastOp' = [op |-> IF wc THEN "findc" ELSE "find", k |-> k, p |-> IF peek THEN 1 ELSE 0]
     /\ UNCHANGED <<cfg, now>>

\* range calls ------------------------------------------------------------------
Elems(n) == UNION {[1..m -> Keys \X {1} \X DArgs] : m \in 0..n}
KeySeqs(n) == UNION {[1..m -> Keys] : m \in 0..n}

DoInsertRange(kv, a) ==
  \E x \in FoldInsert(AllTags, cfg, now, {[st |-> z, acc |-> 0] : z \in RangeStarts(cfg, st)}, kv, a, 1) :
     /\ st' = x.st
     /\ gh' = GhResync(gh, cfg, x.st, now,
                       {k \in Keys : \E i \in 1..Len(kv) : kv[i][1] = k /\ x.st.dl[k] = now + InsertTtl(cfg, st, kv[i][3])})
     /\ lastOp' = [op |-> "insr", kv |-> kv, a |-> a]
     /\ UNCHANGED <<cfg, now>>

DoEraseRange(ks) ==
  \E x \in FoldErase(AllTags, cfg, now, {[st |-> z, acc |-> 0] : z \in RangeStarts(cfg, st)}, ks, 1) :
     /\ st' = x.st
     /\ gh' = GhResync(gh, cfg, x.st, now, {})
     /\ lastOp' = [op |-> "erar", ks |-> ks]
     /\ UNCHANGED <<cfg, now>>

DoFindRange(ks, peek, fill) ==
  \E x \in FoldFind(AllTags, cfg, now, {[st |-> z, acc |-> <<>>] : z \in RangeStarts(cfg, st)}, ks, peek, 1) :
     /\ st' = x.st
     /\ gh' = [GhResync(gh, cfg, x.st, now, {}) EXCEPT !.hits = {}]
     /\ lastOp' = [op |-> IF fill THEN "findf" ELSE "findr", ks |-> ks, p |-> IF peek THEN 1 ELSE 0]
     /\ UNCHANGED <<cfg, now>>

\* calls without a key ----------------------------------------------------------
DoClean ==
  /\ cfg.kind \in TtlKinds
  /\ \E o \in [ret : 0..Cardinality(Keys), gone : {{}}, sz : SizeNear(cfg, st)] :
        /\ OkClean(AllTags, cfg, now, st, o)
        /\ st' = ElemClean(cfg, now, st, o)
  /\ gh' = GhStep(gh)
  /\ lastOp' = [op |-> "clean"]
  /\ UNCHANGED <<cfg, now>>

DoAge ==
  /\ cfg.kind = "lfuda"
  /\ \E o \in [ret : 0..Cardinality(Keys), sz : SizeNear(cfg, st)] :
        /\ OkAge(AllTags, cfg, now, st, o)
        /\ st' = ElemAge(cfg, now, st, o)
  /\ gh' = GhAge(GhStep(gh), cfg, now, st)
  /\ lastOp' = [op |-> "age"]
  /\ UNCHANGED <<cfg, now>>

DoUttl(d) ==
  /\ cfg.kind = "utlru"
  /\ \E o \in [sz : SizeNear(cfg, st)] :
        /\ OkUttl(AllTags, cfg, now, st, o)
        /\ st' = ElemUttl(cfg, now, st, d, o)
  /\ gh' = GhStep(gh)
  /\ lastOp' = [op |-> "uttl", d |-> d]
  /\ UNCHANGED <<cfg, now>>

DoClear ==
  /\ cfg.kind \in {"utlru", "utmap"}
  /\ st' = ElemClear(cfg, now, st)
  /\ gh' = [GhUndo(GhStep(gh), Keys) EXCEPT !.wval = ZeroF]
  /\ lastOp' = [op |-> "clear"]
  /\ UNCHANGED <<cfg, now>>

DoTick(d) ==
  /\ cfg.kind \in TtlKinds \cup {"lfuda"}
  /\ now' = now + d
  /\ st' = ElemTick(cfg, now + d, st)
  /\ gh' = GhUndo(GhStep(gh), Expired(cfg, now + d, st))
  /\ lastOp' = [op |-> "tick", d |-> d]
  /\ UNCHANGED cfg

MNext ==
  \/ \E k \in Keys, v \in MVals, a \in {1, 2, 3}, d \in DArgs : DoInsert(k, v, a, d)
  \/ \E k \in Keys : DoErase(k)
  \/ \E k \in Keys, p \in Peeks : DoFind(k, p, FALSE)
  \/ \E k \in Keys, p \in Peeks : cfg.kind \in CntKinds /\ DoFind(k, p, TRUE)
  \/ \E kv \in Elems(MaxRange), a \in {1, 2, 3} : DoInsertRange(kv, a)
  \/ \E ks \in KeySeqs(MaxRange) : DoEraseRange(ks)
  \/ \E ks \in KeySeqs(MaxRange), p \in Peeks : DoFindRange(ks, p, FALSE)
  \/ DoClean
  \/ DoAge
  \/ \E d \in TtlArgs : DoUttl(d)
  \/ DoClear
  \/ \E d \in TickSteps : DoTick(d)

MSpec == MInit /\ [][MNext]_mvars

CntBound == \A k \in Keys : st.cnt[k] <= MaxCnt

\* --------------------------------------------------------------------------
(* VIEW: times relative to now, ghosts and labels hidden.                  *)
NormOf(c, t, s) ==
  [s EXCEPT !.dl    = [k \in Keys |-> IF s.store[k] = None \/ c.kind \notin TtlKinds THEN 0 ELSE s.dl[k] - t],
            !.stamp = [k \in Keys |-> IF s.store[k] = None \/ c.kind # "lfuda" THEN 0
                                      ELSE Min2(t - s.stamp[k], c.tick + 1)]]
NormSt == NormOf(cfg, now, st)
MView == <<cfg, NormSt>>

\* --------------------------------------------------------------------------
(* Declarative properties over the ghost history.                          *)
\* C01: a reported value is the latest successful write and has not been undone since
PropC01 == \A h \in gh.hits : gh.wstep[h[1]] # 0 /\ gh.wval[h[1]] = h[2]
\* C01 / C03: exactly the keys written and not undone are stored, with the written value
PropStore == \A k \in Keys : IF st.store[k] # None THEN gh.wstep[k] # 0 /\ gh.wval[k] = st.store[k]
                             ELSE gh.wstep[k] = 0
\* C04 / C05: an entry is live exactly until the time of its latest write plus the ttl of that write
PropTtl == cfg.kind \in TtlKinds =>
              \A k \in Keys : st.store[k] # None => (now < gh.wtime[k] + gh.wttl[k] /\ st.dl[k] = gh.wtime[k] + gh.wttl[k])
\* C10, C12, C13, C11, C14, C16: every victim is one the history-based rule allows
PropVictim == gh.evOk
\* C11 / C14: reported counts are the uses since insertion, decayed at aging points
PropCount == cfg.kind \in CntKinds =>
               /\ \A k \in Live(st) : st.cnt[k] = gh.uses[k]
               /\ \A h \in gh.hits : lastOp.op = "findc" =>
                      h[3] = gh.uses[h[1]]
PropIdle == cfg.kind = "lfuda" => \A k \in Live(st) : st.stamp[k] = gh.idle[k]

\* C03 (action property): what a call may remove
LossAllowed ==
  LET R == Live(st) \ Live(st')  o == lastOp' IN
  CASE o.op = "ins"   -> /\ Cardinality(R \ {o.k}) <= 1
                         /\ (R \ {o.k}) # {} => (st.size = cfg.cap /\ st.store[o.k] = None /\ st'.size = cfg.cap)
    [] o.op = "insr"  -> Cardinality(R) <= Len(o.kv)
    [] o.op = "era"   -> R \subseteq {o.k}
    [] o.op = "erar"  -> R \subseteq {o.ks[i] : i \in 1..Len(o.ks)}
    [] o.op = "clear" -> TRUE
    [] o.op = "tick"  -> R = Expired(cfg, now', st)
    [] OTHER          -> R = {}
PropC03 == [][LossAllowed]_mvars

\* C19 (action property): no-effect calls leave values, counts, deadlines and orders alone
NoEffect ==
  LET o == lastOp' IN
  ((o.op \in {"find", "findc"} /\ (o.p = 1 \/ gh'.hits = {}))
     \/ (o.op = "era" /\ st.store[o.k] = None)) =>
        /\ st'.store = st.store /\ st'.cnt = st.cnt /\ st'.rec = st.rec /\ st'.queue = st.queue
        /\ \A k \in Live(st) : st'.stamp[k] = st.stamp[k] /\ st'.dl[k] = st.dl[k]
PropC19 == [][NoEffect]_mvars

\* --------------------------------------------------------------------------
EmitEdge ==
  Emit => PrintT(<<"EDGE", ToJson([from |-> MView, op |-> lastOp', to |-> <<cfg', NormOf(cfg', now', st')>>])>>)

=============================================================================
