-------------------------------- MODULE Conc --------------------------------
(***************************************************************************)
(* Concurrent layer (C06, C07).  Threads run small programs of public      *)
(* calls on one container.  Structured like the code: every call is        *)
(*    Invoke(t)   the part before lock(): what the code samples there      *)
(*    Commit(t)   the critical section: the operational action, atomic     *)
(* (the return is merged into Commit: nothing is read after unlock()).     *)
(* Which phase touches which class of shared field is the lock protocol    *)
(* table `Pre` / `Cs` below, transcribed from the code one row per method. *)
(*                                                                         *)
(* Pinned = TRUE selects the pre-repair protocol of the pinned tree        *)
(* (D4: tlru clean reads the start size before the lock, D5: utlru insert  *)
(* samples the ttl before the lock and update_ttl takes no lock, D6:       *)
(* size()/empty() take no lock); TLC then returns the non-linearizable     *)
(* histories and the races.  Pinned = FALSE is the repaired tree.          *)
(*                                                                         *)
(* Checked: Linearizable (every complete history has a permutation that    *)
(* respects real-time order and that the sequential operational module     *)
(* reproduces result for result and final state for final state) and       *)
(* NoRace (no two threads are simultaneously enabled to make conflicting   *)
(* accesses unless both are critical sections).  Every complete schedule   *)
(* is printed for replay on real threads (harness/conc.cpp).               *)
(***************************************************************************)
EXTENDS Cappuccino, Json

CONSTANTS CKind,      \* container kind
          Threads,    \* e.g. {1, 2}
          CallsPer,   \* calls per thread
          CCap,       \* capacity
          Pinned,     \* TRUE: protocol of the pinned (pre-repair) tree
          Emit

VARIABLES prog,     \* [Threads -> Seq(call)]
          pc,       \* [Threads -> {"idle", "parked"}]
          idx,      \* [Threads -> index of the current / next call]
          smp,      \* [Threads -> values sampled before the lock]
          hist      \* sequence of <<"inv"|"com", t, i, result>>: the history, also the schedule

cvars == <<cfg, now, st, prog, pc, idx, smp, hist>>

\* --------------------------------------------------------------------------
\* the alphabet of calls (small: two keys)
Ins(k, v, a, d) == [op |-> "ins", k |-> k, v |-> v, a |-> a, d |-> d, p |-> 0, ks |-> <<>>]
Era(k)          == [op |-> "era", k |-> k, v |-> 0, a |-> 0, d |-> 0, p |-> 0, ks |-> <<>>]
Find(k)         == [op |-> "find", k |-> k, v |-> 0, a |-> 0, d |-> 0, p |-> 0, ks |-> <<>>]
InsR(ks, v, d)  == [op |-> "insr", k |-> 0, v |-> v, a |-> 3, d |-> d, p |-> 0, ks |-> ks]
FindR(ks)       == [op |-> "findr", k |-> 0, v |-> 0, a |-> 0, d |-> 0, p |-> 0, ks |-> ks]
Nullary(o)      == [op |-> o, k |-> 0, v |-> 0, a |-> 0, d |-> 0, p |-> 0, ks |-> <<>>]
Uttl(d)         == [op |-> "uttl", k |-> 0, v |-> 0, a |-> 0, d |-> d, p |-> 0, ks |-> <<>>]

TtlD == IF CKind = "tlru" THEN 5 ELSE 0
Alphabet ==
  {Ins(1, 1, 3, TtlD), Ins(2, 2, 3, TtlD), Ins(1, 3, 1, TtlD), Era(1), Find(1), InsR(<<1, 2>>, 4, TtlD),
   FindR(<<1, 2>>), Nullary("size")}
  \cup (IF CKind \in TtlKinds THEN {Nullary("clean")} ELSE {})
  \cup (IF CKind = "utlru" THEN {Uttl(2), Uttl(9)} ELSE {})
  \cup (IF CKind \in {"utlru", "utmap"} THEN {Nullary("clear")} ELSE {})

Programs == [Threads -> [1..CallsPer -> Alphabet]]

\* --------------------------------------------------------------------------
\* lock protocol table: accesses to shared field classes outside / inside the critical section
\*   classes: "counter" (element count), "ttlcfg" (uniform ttl), "structure" (index, lists, slots)
Mutators == {"ins", "insr", "era", "erar", "clean", "clear", "age"}
Pre(c) ==    \* unlocked accesses made by Invoke
  IF ~Pinned THEN {}
  ELSE CASE c.op = "size"  -> {<<"counter", "r">>}
         [] c.op \in {"ins", "insr"} /\ CKind = "utlru" -> {<<"ttlcfg", "r">>}
         [] c.op = "uttl"  -> {<<"ttlcfg", "w">>}
         [] c.op = "clean" /\ CKind = "tlru" -> {<<"structure", "r">>}
         [] c.op = "clear" /\ CKind = "utmap" -> {<<"structure", "r">>}
         [] OTHER -> {}
Cs(c) ==     \* accesses inside the critical section
  CASE c.op \in Mutators -> {<<"counter", "w">>, <<"structure", "w">>, <<"ttlcfg", "r">>}
    [] c.op \in {"find", "findr"} -> {<<"counter", "w">>, <<"structure", "w">>}    \* lookups reorder / reap
    [] c.op = "uttl" -> IF Pinned THEN {} ELSE {<<"ttlcfg", "w">>}
    [] c.op = "size" -> IF Pinned THEN {} ELSE {<<"counter", "r">>}
    [] OTHER -> {}
HasCs(c) == Cs(c) # {}

Conflict(A, B) == \E a \in A, b \in B : a[1] = b[1] /\ (a[2] = "w" \/ b[2] = "w")

\* --------------------------------------------------------------------------
\* Deterministic application of one call to the sequential model (canonical outcome: the
\* one the pinned code takes where the properties leave a choice).
Pick(S) == CHOOSE o \in S : \A o2 \in S : o.sz >= o2.sz
KV(c) == [i \in 1..Len(c.ks) |-> <<c.ks[i], c.v, c.d>>]
PickFold(S) == CHOOSE x \in S : \A y \in S : x.st.size >= y.st.size

\* ttlIn: the uniform ttl the call uses (sampled before the lock in the pinned tree)
Apply(c, t, s0, call, ttlIn, startSize) ==
  LET s == [s0 EXCEPT !.ttl = IF c.kind = "utlru" /\ call.op \in {"ins", "insr"} THEN ttlIn ELSE s0.ttl]
      keep(s2) == [s2 EXCEPT !.ttl = s0.ttl]
  IN
  CASE call.op = "ins" ->
         LET o == Pick(OutsInsert(AllTags, c, t, s, call.k, call.a, call.d))
         IN [st |-> keep(ElemInsert(c, t, s, call.k, call.v, call.a, call.d, o)), ret |-> IF o.ret THEN 1 ELSE 0]
    [] call.op = "era" ->
         LET o == Pick(OutsErase(AllTags, c, t, s, call.k))
         IN [st |-> ElemErase(c, t, s, call.k, o), ret |-> IF o.ret THEN 1 ELSE 0]
    [] call.op = "find" ->
         LET o == Pick(OutsFind(AllTags, c, t, s, call.k, FALSE, FALSE))
         IN [st |-> ElemFind(c, t, s, call.k, FALSE, o), ret |-> o.val]
    [] call.op = "insr" ->
         LET x == PickFold(FoldInsert(AllTags, c, t, {[st |-> z, acc |-> 0] : z \in RangeStarts(c, s)}, KV(call), call.a, 1))
         IN [st |-> keep(x.st), ret |-> x.acc]
    [] call.op = "findr" ->
         LET x == PickFold(FoldFind(AllTags, c, t, {[st |-> z, acc |-> <<>>] : z \in RangeStarts(c, s)}, call.ks, FALSE, 1))
         IN [st |-> x.st, ret |-> x.acc]
    [] call.op = "clean" ->
         LET o == [ret |-> s.size - NLive(s), gone |-> {}, sz |-> NLive(s)]
             r == IF Pinned /\ c.kind = "tlru" THEN startSize - NLive(s) ELSE o.ret
         IN [st |-> ElemClean(c, t, s, o), ret |-> r]
    [] call.op = "uttl"  -> [st |-> [s0 EXCEPT !.ttl = call.d], ret |-> 0]
    [] call.op = "clear" -> [st |-> ElemClear(c, t, s0), ret |-> 0]
    [] call.op = "size"  -> [st |-> s0, ret |-> s0.size]

\* --------------------------------------------------------------------------
CInit ==
  /\ cfg = [kind |-> CKind, cap |-> CCap, tick |-> 2, rnum |-> 1, rsh |-> 1,
            ttl0 |-> IF CKind \in {"utlru", "utmap", "utset"} THEN 5 ELSE 0]
  /\ now = 0
  /\ st = InitState(cfg.ttl0)
  /\ prog \in Programs
  /\ pc = [t \in Threads |-> "idle"]
  /\ idx = [t \in Threads |-> 1]
  /\ smp = [t \in Threads |-> [ttl |-> 0, size |-> 0]]
  /\ hist = <<>>

Cur(t) == prog[t][idx[t]]

\* A call without a critical section (unlocked observer / setter of the pinned tree) takes
\* effect at once, in its Invoke step.
Invoke(t) ==
  /\ pc[t] = "idle" /\ idx[t] <= CallsPer
  /\ LET call == Cur(t) IN
     IF HasCs(call)
     THEN /\ pc' = [pc EXCEPT ![t] = "parked"]
          /\ smp' = [smp EXCEPT ![t] = [ttl |-> st.ttl, size |-> st.size]]
          /\ hist' = Append(hist, <<"inv", t, idx[t], 0>>)
          /\ UNCHANGED <<st, idx>>
     ELSE LET r == Apply(cfg, now, st, call, st.ttl, st.size) IN
          /\ st' = r.st
          /\ hist' = hist \o << <<"inv", t, idx[t], 0>>, <<"com", t, idx[t], r.ret>> >>
          /\ idx' = [idx EXCEPT ![t] = @ + 1]
          /\ UNCHANGED <<pc, smp>>
  /\ UNCHANGED <<cfg, now, prog>>

Commit(t) ==
  /\ pc[t] = "parked"
  /\ LET call == Cur(t)
         r == Apply(cfg, now, st, call, IF Pinned THEN smp[t].ttl ELSE st.ttl, smp[t].size) IN
     /\ st' = r.st
     /\ hist' = Append(hist, <<"com", t, idx[t], r.ret>>)
  /\ pc' = [pc EXCEPT ![t] = "idle"]
  /\ idx' = [idx EXCEPT ![t] = @ + 1]
  /\ UNCHANGED <<cfg, now, prog, smp>>

AllDone == \A t \in Threads : pc[t] = "idle" /\ idx[t] > CallsPer

CNext == \E t \in Threads : Invoke(t) \/ Commit(t)
CSpec == CInit /\ [][CNext]_cvars

\* --------------------------------------------------------------------------
\* C07 at the design level
NextAccess(t) ==
  IF pc[t] = "parked" THEN [locked |-> TRUE, acc |-> Cs(Cur(t))]
  ELSE IF idx[t] <= CallsPer THEN [locked |-> FALSE, acc |-> Pre(Cur(t))]
  ELSE [locked |-> TRUE, acc |-> {}]
NoRace ==
  \A t, u \in Threads : t # u =>
     LET a == NextAccess(t)  b == NextAccess(u) IN
     (a.locked /\ b.locked) \/ ~Conflict(a.acc, b.acc)

\* --------------------------------------------------------------------------
\* C06 at the design level: linearizability of complete histories
Calls == {<<t, i>> : t \in Threads, i \in 1..CallsPer}
PosOf(kind, c) == CHOOSE n \in 1..Len(hist) : hist[n][1] = kind /\ hist[n][2] = c[1] /\ hist[n][3] = c[2]
ResOf(c) == hist[PosOf("com", c)][4]
\* real-time order: a before b if a returned before b was invoked
Before(a, b) == PosOf("com", a) < PosOf("inv", b)

Orders == {f \in [1..Cardinality(Calls) -> Calls] : \A i, j \in DOMAIN f : i # j => f[i] # f[j]}
RespectsRT(f) == \A i, j \in DOMAIN f : Before(f[i], f[j]) => i < j

RECURSIVE Replay(_, _, _)
Replay(f, i, s) ==      \* sequential execution in order f; FALSE as soon as a result differs
  IF i > Len(f) THEN [ok |-> TRUE, st |-> s]
  ELSE LET c == f[i]
           r == Apply(cfg, now, s, prog[c[1]][c[2]], s.ttl, s.size) IN
       IF r.ret # ResOf(c) THEN [ok |-> FALSE, st |-> s] ELSE Replay(f, i + 1, r.st)

Linearizable ==
  AllDone => \E f \in Orders : RespectsRT(f) /\
                LET r == Replay(f, 1, InitState(cfg.ttl0)) IN r.ok /\ r.st = st

\* every complete schedule, for replay on real threads
EmitDone ==
  (Emit /\ AllDone') =>
     PrintT(<<"SCHED", ToJson([prog |-> [t \in Threads |-> prog[t]], hist |-> hist'])>>)

=============================================================================
