----------------------------- MODULE Cappuccino -----------------------------
(***************************************************************************)
(* Operational specification of the ten libcappuccino containers.          *)
(*                                                                         *)
(* One abstract state record `st`, one configuration record `cfg`, one     *)
(* clock `now`.  Every public call is an action parameterised by its       *)
(* OUTCOME (what the call returned, which live keys left, the size         *)
(* reported afterwards).  An action is                                     *)
(*     Ok<Call>(T, ...)   tagged judgements: each conjunct is enforced     *)
(*                        only if its property tag is in T                 *)
(*     Elem<Call>(...)    the post state as a function of pre state,       *)
(*                        arguments and outcome (hidden policy / ttl       *)
(*                        state is advanced here and is never gated)       *)
(* Model checking uses T = AllTags and enumerates outcomes; the trace      *)
(* specification (SeqTrace.tla) binds the outcome to what the real code    *)
(* did and uses T = Strict, the slice of one property.  Range calls are    *)
(* left folds of the single-key steps at one instant.                      *)
(*                                                                         *)
(* Where the properties leave the implementation free (lfu ties, the rr    *)
(* victim, which expired entry is discarded and when, whether an           *)
(* update-only insert revives an expired entry) the outcome is simply not  *)
(* constrained.                                                            *)
(***************************************************************************)
EXTENDS Naturals, Integers, Sequences, FiniteSets, SequencesExt, TLC

CONSTANTS Keys,      \* finite set of positive integers
          Strict     \* set of property tags enforced in trace mode

None == 0

AllTags == {"C01","C02","C03","C04","C05","C06","C07","C08","C09","C10",
            "C11","C12","C13","C14","C15","C16","C17","C18","C19","C20","SPEC"}

\* Judgements that define the shape of an outcome.  They are always enforced for
\* the unobservable per-element steps inside a range call.
StructTags == {"C01","C02","C03","C09","SPEC"}

VARIABLES cfg,   \* [kind, cap, tick, rnum, rsh, ttl0]   fixed after construction
          now,   \* the virtual clock
          st     \* the abstract container state (record, see InitState)

vars == <<cfg, now, st>>

-----------------------------------------------------------------------------
(* Kinds *)
RecKinds   == {"lru", "mru", "tlru", "utlru"}        \* keep a recency order
CntKinds   == {"lfu", "lfuda"}                       \* keep use counts
TtlCaches  == {"tlru", "utlru"}                      \* capacity + ttl
UtKinds    == {"utmap", "utset"}                     \* ttl, no capacity
TtlKinds   == TtlCaches \cup UtKinds
CacheKinds == {"lru","mru","fifo","lfu","lfuda","rr","tlru","utlru"}
PeekKinds  == {"lru","mru","tlru","utlru","lfu","lfuda"}
AllKinds   == CacheKinds \cup UtKinds

UpdAllowed(a) == a \in {2, 3}
InsAllowed(a) == a \in {1, 3}

Rm(seq, S) == SelectSeq(seq, LAMBDA x : x \notin S)
Min2(a, b) == IF a < b THEN a ELSE b
Max2(a, b) == IF a > b THEN a ELSE b

ZeroF == [k \in Keys |-> 0]

InitState(ttl) ==
  [ store |-> ZeroF,   \* live mapping: key -> value, None if not live
    size  |-> 0,       \* what size() reports
    cnt   |-> ZeroF,   \* use counts (lfu, lfuda)
    rec   |-> <<>>,    \* live keys, most recently used first (lru, mru, tlru, utlru)
    queue |-> <<>>,    \* live keys in insertion order (fifo)
    stamp |-> ZeroF,   \* lfuda: time of last use or aging
    dl    |-> ZeroF,   \* ttl kinds: deadline of the latest successful write (0: none)
    unr   |-> {},      \* superset of the expired entries that may still hold a slot
    ttl   |-> ttl ]    \* currently configured uniform ttl (utlru, utmap, utset)

Live(s)    == {k \in Keys : s.store[k] # None}
NLive(s)   == Cardinality(Live(s))
Surplus(s) == s.size - NLive(s)          \* expired entries still counted by size()
LiveRec(s)   == SelectSeq(s.rec,   LAMBDA x : s.store[x] # None)
LiveQueue(s) == SelectSeq(s.queue, LAMBDA x : s.store[x] # None)

IsFull(c, s) == c.kind \in CacheKinds /\ s.size >= c.cap

\* Make the hidden order structures total over the live keys again (only matters after
\* the observation showed something the specification did not expect).
Missing(seq, S) == S \ {seq[i] : i \in 1..Len(seq)}
Repair(c, s) ==
  LET L == Live(s) IN
  [s EXCEPT !.rec   = IF c.kind \in RecKinds
                      THEN Rm(s.rec, Keys \ L) \o SetToSeq(Missing(s.rec, L)) ELSE <<>>,
            !.queue = IF c.kind = "fifo"
                      THEN Rm(s.queue, Keys \ L) \o SetToSeq(Missing(s.queue, L)) ELSE <<>>]

-----------------------------------------------------------------------------
(* lfuda dynamic aging.  ratio = rnum / 2^rsh, a dyadic number in [0,1].   *)
Pow2(n) == IF n = 0 THEN 1 ELSE IF n = 1 THEN 2 ELSE IF n = 2 THEN 4 ELSE IF n = 3 THEN 8 ELSE 16
Idle(c, t, s)  == {k \in Live(s) : s.stamp[k] + c.tick < t}
AgedCnt(c, n)  == (n * c.rnum) \div Pow2(c.rsh)
AgeAll(c, t, s) ==
  LET I == Idle(c, t, s) IN
  [s EXCEPT !.cnt   = [k \in Keys |-> IF k \in I THEN AgedCnt(c, s.cnt[k]) ELSE s.cnt[k]],
            !.stamp = [k \in Keys |-> IF k \in I THEN t ELSE s.stamp[k]]]

-----------------------------------------------------------------------------
(* Size judgement shared by all calls (C02).  L2 = number of live keys     *)
(* after the call, sur = surplus before it, dec = expired entries the call *)
(* is known to have removed.                                               *)
(* slack = bound on the surplus after the call that follows from the       *)
(* surplus before it; ub = size of the over-approximation `unr` after it.  *)
SizeRule(c, L2, slack, ub, sz) ==
  IF c.kind \in UtKinds THEN sz = L2
  ELSE /\ sz <= c.cap
       /\ IF c.kind \in TtlCaches
          THEN L2 <= sz /\ sz - L2 <= Min2(Max2(slack, 0), ub)
          ELSE sz = L2

SizeCands(c) == IF c.kind \in UtKinds THEN 0..Cardinality(Keys) ELSE 0..c.cap
\* The sizes worth trying for a state with `n` live keys whose size was `size`: only tlru / utlru
\* have a choice (how many expired entries were discarded); everything else reports its live count.
\* (An optimisation of the candidate generators only: the Ok* judgements still decide.)
SizeNear(c, s) ==
  IF c.kind \in TtlCaches
  THEN Max2(NLive(s) - 1, 0)..Min2(c.cap, s.size + 1)
  ELSE Max2(NLive(s) - 1, 0)..(NLive(s) + 1)

\* Drop the over-approximation of unreaped entries once size() shows there are none.
NormUnr(s) == IF Surplus(s) = 0 THEN [s EXCEPT !.unr = {}] ELSE s

-----------------------------------------------------------------------------
(* insert(k, v, a [, d])      outcome: [ret, gone, sz]                     *)

InsertWillAge(c, s, k, out) ==
  c.kind = "lfuda" /\ out.ret /\ s.store[k] = None /\ IsFull(c, s)

InsertTtl(c, s, d) == IF c.kind = "tlru" THEN d ELSE s.ttl
\* A write with ttl 0 is expired the instant it is made: the entry takes a slot but is never live.
DeadOnArrival(c, s, d) == c.kind \in TtlKinds /\ InsertTtl(c, s, d) = 0

ElemInsert(c, t, s, k, v, a, d, out) ==
  LET live  == s.store[k] # None
      wr    == out.ret
      doa   == wr /\ DeadOnArrival(c, s, d)
      isNew == wr /\ ~live
      g     == out.gone \cup (IF doa THEN {k} ELSE {})     \* keys that are not live afterwards
      ag    == IF InsertWillAge(c, s, k, out) THEN AgeAll(c, t, s) ELSE s
      D     == InsertTtl(c, s, d)
      s2    == [ store |-> [x \in Keys |-> IF x \in g THEN None
                                          ELSE IF x = k /\ wr THEN v ELSE s.store[x]],
                 size  |-> out.sz,
                 cnt   |-> IF c.kind \in CntKinds
                           THEN [x \in Keys |-> IF x \in g THEN 0
                                               ELSE IF x = k /\ wr THEN (IF live THEN ag.cnt[k] + 1 ELSE 1)
                                               ELSE ag.cnt[x]]
                           ELSE s.cnt,
                 rec   |-> IF c.kind \in RecKinds
                           THEN (IF wr /\ ~doa THEN <<k>> \o Rm(s.rec, {k} \cup g) ELSE Rm(s.rec, g))
                           ELSE s.rec,
                 queue |-> IF c.kind = "fifo"
                           THEN (IF isNew THEN Append(Rm(s.queue, g \cup {k}), k) ELSE Rm(s.queue, g))
                           ELSE s.queue,
                 stamp |-> IF c.kind = "lfuda"
                           THEN [x \in Keys |-> IF x \in g THEN 0
                                               ELSE IF x = k /\ wr THEN t ELSE ag.stamp[x]]
                           ELSE s.stamp,
                 dl    |-> IF c.kind \in TtlKinds
                           THEN [x \in Keys |-> IF x = k /\ wr THEN t + D
                                               ELSE IF x \in g THEN 0 ELSE s.dl[x]]
                           ELSE s.dl,
                 unr   |-> IF doa THEN s.unr \cup {k} ELSE IF wr THEN s.unr \ {k} ELSE s.unr,
                 ttl   |-> s.ttl ]
  IN NormUnr(s2)

OkInsert(T, c, t, s, k, a, d, out) ==
  LET live     == s.store[k] # None
      unrk     == ~live /\ k \in s.unr
      full     == IsFull(c, s)
      sur      == Surplus(s)
      needSlot == out.ret /\ ~live
      doa      == out.ret /\ DeadOnArrival(c, s, d)
      g        == out.gone
      L2       == NLive(s) + (IF needSlot /\ ~doa THEN 1 ELSE 0) - (IF live /\ doa THEN 1 ELSE 0)
                           - Cardinality(g \cap Live(s))
      unr2     == IF doa THEN s.unr \cup {k} ELSE IF out.ret THEN s.unr \ {k} ELSE s.unr
      ag       == IF InsertWillAge(c, s, k, out) THEN AgeAll(c, t, s) ELSE s
      lr       == LiveRec(s)
      lq       == LiveQueue(s)
      minCnt(x) == \A y \in Live(s) : ag.cnt[x] <= ag.cnt[y]
  IN
  /\ ("C09" \in T) =>
        IF live THEN out.ret = UpdAllowed(a)
        ELSE IF unrk /\ a = 2 THEN TRUE
        ELSE out.ret = InsAllowed(a)
  /\ ("C03" \in T) =>
        /\ g \subseteq Live(s) \ {k}
        /\ Cardinality(g) <= 1
        /\ g # {} => (needSlot /\ full)
        /\ (needSlot /\ full /\ sur = 0) => Cardinality(g) = 1
        \* size() stays at capacity(); with expired entries present an implementation may discard
        \* more than the one it needs (C19 allows that), which C02 bounds
        /\ (needSlot /\ full /\ sur = 0) => out.sz = c.cap
  /\ ("C02" \in T) => SizeRule(c, L2, sur + (IF doa THEN 1 ELSE 0), Cardinality(unr2), out.sz)
  /\ ("C17" \in T) => ((c.kind \in UtKinds /\ ~live /\ a = 2) => ~out.ret)
  \* ut_map / ut_set purge at the start of the call: nothing that expired before it is still counted
  /\ ("C17" \in T) => (c.kind \in UtKinds => out.sz = L2 + (IF doa THEN 1 ELSE 0))
  /\ ("C10" \in T) =>
        (((c.kind = "lru" \/ (c.kind \in TtlCaches /\ sur = 0)) /\ g # {} /\ lr # <<>>)
            => g = {lr[Len(lr)]})
  /\ ("C13" \in T) => ((c.kind = "mru" /\ g # {} /\ lr # <<>>) => g = {lr[1]})
  /\ ("C12" \in T) => ((c.kind = "fifo" /\ g # {} /\ lq # <<>>) => g = {lq[1]})
  /\ ("C11" \in T) =>
        ((c.kind = "lfu" \/ (c.kind = "lfuda" /\ ag = s)) => \A x \in g : minCnt(x))
  /\ ("C14" \in T) =>
        ((c.kind = "lfuda" /\ ag # s) => \A x \in g : minCnt(x))
  /\ ("C15" \in T) => (c.kind = "rr" => (/\ g \subseteq Live(s) \ {k} /\ Cardinality(g) <= 1
                                           /\ g # {} => (needSlot /\ full)))      \* only when it must
  /\ ("C16" \in T) => ((c.kind \in TtlCaches /\ needSlot /\ full /\ sur >= 1) => g = {})

InsertCands(c, s, k) ==
  [ret : BOOLEAN, gone : {{}} \cup {{x} : x \in Live(s) \ {k}}, sz : SizeNear(c, s)]

OutsInsert(T, c, t, s, k, a, d) ==
  {o \in InsertCands(c, s, k) : OkInsert(T \cup StructTags, c, t, s, k, a, d, o)}

-----------------------------------------------------------------------------
(* erase(k)                   outcome: [ret, gone, sz]                     *)

ElemErase(c, t, s, k, out) ==
  LET g  == out.gone \cup (IF out.ret THEN {k} ELSE {})
      s2 == [ store |-> [x \in Keys |-> IF x \in g THEN None ELSE s.store[x]],
              size  |-> out.sz,
              cnt   |-> [x \in Keys |-> IF x \in g THEN 0 ELSE s.cnt[x]],
              rec   |-> Rm(s.rec, g),
              queue |-> Rm(s.queue, g),
              stamp |-> [x \in Keys |-> IF x \in g THEN 0 ELSE s.stamp[x]],
              dl    |-> [x \in Keys |-> IF x \in g THEN 0 ELSE s.dl[x]],
              unr   |-> IF out.ret THEN s.unr \ {k} ELSE s.unr,
              ttl   |-> s.ttl ]
  IN NormUnr(s2)

OkErase(T, c, t, s, k, out) ==
  LET live == s.store[k] # None
      unrk == ~live /\ k \in s.unr
      g    == out.gone
      L2   == NLive(s) - Cardinality(g \cap Live(s))
  IN
  /\ ("SPEC" \in T) => /\ live => out.ret
                       /\ (~live /\ ~unrk) => ~out.ret
  /\ ("C01" \in T) => ((out.ret /\ live) => k \in g)       \* a successful erase removes the key
  /\ ("C03" \in T) => /\ g \subseteq {k} \cap Live(s)
                      /\ ~out.ret => g = {}
  /\ ("C17" \in T) => ((c.kind \in UtKinds /\ ~live) => ~out.ret)
  /\ ("C17" \in T) => (c.kind \in UtKinds => out.sz = L2)
  /\ ("C02" \in T) => SizeRule(c, L2, Surplus(s) - (IF out.ret /\ unrk THEN 1 ELSE 0),
                               Cardinality(IF out.ret THEN s.unr \ {k} ELSE s.unr), out.sz)

EraseCands(c, s, k) ==
  [ret : BOOLEAN, gone : {{}} \cup (IF s.store[k] # None THEN {{k}} ELSE {}), sz : SizeNear(c, s)]

OutsErase(T, c, t, s, k) ==
  {o \in EraseCands(c, s, k) : OkErase(T \cup StructTags, c, t, s, k, o)}

-----------------------------------------------------------------------------
(* find(k [,peek]) / find_with_use_count     outcome: [val, rc, wc, sz]    *)
(*   val: value or None, wc: TRUE for find_with_use_count, rc: its count   *)

ElemFind(c, t, s, k, peek, out) ==
  LET hit == out.val # None
      use == hit /\ ~peek
      s2  == [s EXCEPT !.size  = out.sz,
                       !.cnt   = IF c.kind \in CntKinds /\ use
                                 THEN [s.cnt EXCEPT ![k] = @ + 1] ELSE s.cnt,
                       !.rec   = IF c.kind \in RecKinds /\ use
                                 THEN <<k>> \o Rm(s.rec, {k}) ELSE s.rec,
                       !.stamp = IF c.kind = "lfuda" /\ use
                                 THEN [s.stamp EXCEPT ![k] = t] ELSE s.stamp]
  IN NormUnr(s2)

OkFind(T, c, t, s, k, peek, out) ==
  LET live == s.store[k] # None
      hit  == out.val # None
  IN
  /\ ("C01" \in T) => (hit => out.val = s.store[k])
  /\ ("C04" \in T) => ((c.kind \in TtlKinds /\ hit) => t < s.dl[k])
  /\ ("C03" \in T) => (live => hit)
  /\ ("C05" \in T) => ((c.kind \in TtlKinds /\ live) => hit)
  /\ ("C17" \in T) => ((c.kind \in UtKinds /\ hit) => live)    \* ut_map / ut_set purge before they look up
  /\ ("C17" \in T) => (c.kind \in UtKinds => out.sz = NLive(s))
  /\ ("C11" \in T) => ((c.kind \in CntKinds /\ out.wc /\ hit /\ live) =>
                           out.rc = s.cnt[k] + (IF peek THEN 0 ELSE 1))
  /\ ("C02" \in T) => SizeRule(c, NLive(s), Surplus(s), Cardinality(s.unr), out.sz)

FindCands(c, s, k, wc) ==
  {[val |-> v, rc |-> r, wc |-> wc, sz |-> z] :
      v \in {None, s.store[k]},
      r \in IF wc /\ c.kind \in CntKinds THEN {0, s.cnt[k], s.cnt[k] + 1} ELSE {0},
      z \in SizeNear(c, s)}

OutsFind(T, c, t, s, k, peek, wc) ==
  {o \in FindCands(c, s, k, wc) :
      /\ OkFind(T \cup StructTags \cup {"C11"}, c, t, s, k, peek, o)
      /\ (o.val = None => o.rc = 0)}

-----------------------------------------------------------------------------
(* Range calls: left folds of the element steps at one instant.  S is a    *)
(* set of [st, acc] pairs: the states the fold may be in and what the call *)
(* has accumulated so far (a count, or the result list).                   *)

\* ut_map / ut_set purge every expired entry at the start of every call, also of an empty range.
RangeStart(c, s) == IF c.kind \in UtKinds THEN [s EXCEPT !.size = NLive(s), !.unr = {}] ELSE s
\* tlru / utlru: a range call (also an empty one) may discard expired entries before it looks at
\* its elements, like any other call; the fold starts from every size that leaves possible.
RangeStarts(c, s) ==
  IF c.kind \in TtlCaches
  THEN {NormUnr([s EXCEPT !.size = z]) : z \in NLive(s)..s.size}
  ELSE {RangeStart(c, s)}

RECURSIVE FoldInsert(_, _, _, _, _, _, _)
FoldInsert(T, c, t, S, kv, a, i) ==
  IF i > Len(kv) THEN S
  ELSE FoldInsert(T, c, t,
         UNION { { [st  |-> ElemInsert(c, t, x.st, kv[i][1], kv[i][2], a, kv[i][3], o),
                    acc |-> x.acc + (IF o.ret THEN 1 ELSE 0)]
                   : o \in OutsInsert(T, c, t, x.st, kv[i][1], a, kv[i][3]) } : x \in S },
         kv, a, i + 1)

RECURSIVE FoldErase(_, _, _, _, _, _)
FoldErase(T, c, t, S, ks, i) ==
  IF i > Len(ks) THEN S
  ELSE FoldErase(T, c, t,
         UNION { { [st  |-> ElemErase(c, t, x.st, ks[i], o),
                    acc |-> x.acc + (IF o.ret THEN 1 ELSE 0)]
                   : o \in OutsErase(T, c, t, x.st, ks[i]) } : x \in S },
         ks, i + 1)

RECURSIVE FoldFind(_, _, _, _, _, _, _)
FoldFind(T, c, t, S, ks, peek, i) ==
  IF i > Len(ks) THEN S
  ELSE FoldFind(T, c, t,
         UNION { { [st  |-> ElemFind(c, t, x.st, ks[i], peek, o),
                    acc |-> Append(x.acc, <<ks[i], o.val>>)]
                   : o \in OutsFind(T, c, t, x.st, ks[i], peek, FALSE) } : x \in S },
         ks, peek, i + 1)

-----------------------------------------------------------------------------
(* Whole-call actions without a key.                                       *)

\* clean_expired_values()     outcome: [ret, gone, sz]
ElemClean(c, t, s, out) ==
  LET g == out.gone IN
  [s EXCEPT !.store = [x \in Keys |-> IF x \in g THEN None ELSE s.store[x]],
            !.size  = out.sz,
            !.rec   = Rm(s.rec, g),
            !.dl    = [x \in Keys |-> IF x \in g THEN 0 ELSE s.dl[x]],
            !.unr   = IF out.sz = NLive(s) - Cardinality(g \cap Live(s)) THEN {} ELSE s.unr]

OkClean(T, c, t, s, out) ==
  /\ ("C03" \in T) => out.gone = {}
  /\ ("C17" \in T) => /\ out.gone = {}
                      /\ out.sz = NLive(s)
                      /\ out.ret = s.size - out.sz
  /\ ("C02" \in T) => SizeRule(c, NLive(s) - Cardinality(out.gone \cap Live(s)), Surplus(s),
                               Cardinality(s.unr), out.sz)

\* dynamically_age()          outcome: [ret, sz]
ElemAge(c, t, s, out) == [AgeAll(c, t, s) EXCEPT !.size = out.sz]
OkAge(T, c, t, s, out) ==
  /\ ("C14" \in T) => out.ret = Cardinality(Idle(c, t, s))
  /\ ("C02" \in T) => out.sz = NLive(s)

\* update_ttl(d)
ElemUttl(c, t, s, d, out) == [s EXCEPT !.ttl = d, !.size = out.sz]
OkUttl(T, c, t, s, out) ==
  ("C02" \in T) => SizeRule(c, NLive(s), Surplus(s), Cardinality(s.unr), out.sz)

\* clear()
ElemClear(c, t, s) == InitState(s.ttl)

\* The clock moves (not a call).  Entries whose deadline is reached stop being live;
\* they may keep their slot until the implementation discards them.
Expired(c, t2, s) == IF c.kind \in TtlKinds THEN {k \in Live(s) : s.dl[k] <= t2} ELSE {}
ElemTick(c, t2, s) ==
  LET X == Expired(c, t2, s) IN
  [s EXCEPT !.store = [x \in Keys |-> IF x \in X THEN None ELSE s.store[x]],
            !.rec   = Rm(s.rec, X),
            !.unr   = s.unr \cup X]

-----------------------------------------------------------------------------
(* State invariants of the operational model (checked by TLC in MC*.tla).  *)

TypeOK ==
  /\ cfg.kind \in AllKinds
  /\ st.size \in Nat
  /\ DOMAIN st.store = Keys
  /\ st.unr \subseteq Keys

SizeInv ==
  /\ cfg.kind \in CacheKinds => st.size <= cfg.cap
  /\ cfg.kind \notin TtlKinds => st.size = NLive(st)
  /\ cfg.kind \in TtlKinds => (NLive(st) <= st.size /\ st.size - NLive(st) <= Cardinality(st.unr))

OrderInv ==
  /\ cfg.kind \in RecKinds =>
        (IsInjective(st.rec) /\ {st.rec[i] : i \in 1..Len(st.rec)} = Live(st))
  /\ cfg.kind = "fifo" =>
        (IsInjective(st.queue) /\ {st.queue[i] : i \in 1..Len(st.queue)} = Live(st))
  /\ cfg.kind \in CntKinds => \A k \in Keys : (st.cnt[k] # 0 => k \in Live(st))
  /\ cfg.kind \in TtlKinds => \A k \in Live(st) : now < st.dl[k]

=============================================================================
