SPECIFICATION Spec
CONSTANTS
  Keys = {1,2,3}
  Strict = {}
  Cap = 3
  Vals = {1}
  Pinned = FALSE
INVARIANTS NoUB OpenListIsPermutation PosInverse BackPointersInverse IndexInjective SizeIsIndexSize
PROPERTIES RefinesOperational
CHECK_DEADLOCK FALSE
