SPECIFICATION Spec
CONSTANTS
  Keys = {1,2,3}
  Strict = {}
  Kind = "tlru"
  Cap = 2
  Vals = {1}
  Ttls = {1,3}
  TickSteps = {1,2}
  TtlWriteOrder = FALSE
  ClearKeepsTtl = FALSE
  UpdateFilesOld = TRUE
  EraseToListEnd = FALSE
VIEW View
INVARIANTS NoUB ListIsPermutation PartitionMatchesCount BackPointersInverse IndexWithinCapacity TtlListMatches TtlHeadIsMinimal
CHECK_DEADLOCK FALSE
