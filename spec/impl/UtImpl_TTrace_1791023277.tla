---- MODULE UtImpl_TTrace_1791023277 ----
EXTENDS Sequences, TLCExt, Toolbox, Naturals, TLC, UtImpl

_expression ==
    LET UtImpl_TEExpression == INSTANCE UtImpl_TEExpression
    IN UtImpl_TEExpression!expression
----

_trace ==
    LET UtImpl_TETrace == INSTANCE UtImpl_TETrace
    IN UtImpl_TETrace!trace
----

_inv ==
    ~(
        TLCGet("level") = Len(_TETrace)
        /\
        ttlList = (<<<<4, 3>>, <<3, 1>>>>)
        /\
        st = ([ttl |-> 3, store |-> <<0, 0, 0>>, size |-> 0, cnt |-> <<0, 0, 0>>, rec |-> <<>>, queue |-> <<>>, stamp |-> <<0, 0, 0>>, dl |-> <<0, 0, 0>>, unr |-> {}])
        /\
        stale = (FALSE)
        /\
        cfg = ([kind |-> "utmap", cap |-> 0, tick |-> 1, rnum |-> 1, rsh |-> 0, ttl0 |-> 3])
        /\
        now = (1)
        /\
        map = (<<1, 0, 1>>)
        /\
        lastOp = ([k |-> 3, op |-> "ins"])
    )
----

_init ==
    /\ lastOp = _TETrace[1].lastOp
    /\ cfg = _TETrace[1].cfg
    /\ ttlList = _TETrace[1].ttlList
    /\ now = _TETrace[1].now
    /\ stale = _TETrace[1].stale
    /\ map = _TETrace[1].map
    /\ st = _TETrace[1].st
----

_next ==
    /\ \E i,j \in DOMAIN _TETrace:
        /\ \/ /\ j = i + 1
              /\ i = TLCGet("level")
        /\ lastOp  = _TETrace[i].lastOp
        /\ lastOp' = _TETrace[j].lastOp
        /\ cfg  = _TETrace[i].cfg
        /\ cfg' = _TETrace[j].cfg
        /\ ttlList  = _TETrace[i].ttlList
        /\ ttlList' = _TETrace[j].ttlList
        /\ now  = _TETrace[i].now
        /\ now' = _TETrace[j].now
        /\ stale  = _TETrace[i].stale
        /\ stale' = _TETrace[j].stale
        /\ map  = _TETrace[i].map
        /\ map' = _TETrace[j].map
        /\ st  = _TETrace[i].st
        /\ st' = _TETrace[j].st

\* Uncomment the ASSUME below to write the states of the error trace
\* to the given file in Json format. Note that you can pass any tuple
\* to `JsonSerialize`. For example, a sub-sequence of _TETrace.
    \* ASSUME
    \*     LET J == INSTANCE Json
    \*         IN J!JsonSerialize("UtImpl_TTrace_1791023277.json", _TETrace)

=============================================================================

 Note that you can extract this module `UtImpl_TEExpression`
  to a dedicated file to reuse `expression` (the module in the 
  dedicated `UtImpl_TEExpression.tla` file takes precedence 
  over the module `UtImpl_TEExpression` below).

---- MODULE UtImpl_TEExpression ----
EXTENDS Sequences, TLCExt, Toolbox, Naturals, TLC, UtImpl

expression == 
    [
        \* To hide variables of the `UtImpl` spec from the error trace,
        \* remove the variables below.  The trace will be written in the order
        \* of the fields of this record.
        lastOp |-> lastOp
        ,cfg |-> cfg
        ,ttlList |-> ttlList
        ,now |-> now
        ,stale |-> stale
        ,map |-> map
        ,st |-> st
        
        \* Put additional constant-, state-, and action-level expressions here:
        \* ,_stateNumber |-> _TEPosition
        \* ,_lastOpUnchanged |-> lastOp = lastOp'
        
        \* Format the `lastOp` variable as Json value.
        \* ,_lastOpJson |->
        \*     LET J == INSTANCE Json
        \*     IN J!ToJson(lastOp)
        
        \* Lastly, you may build expressions over arbitrary sets of states by
        \* leveraging the _TETrace operator.  For example, this is how to
        \* count the number of times a spec variable changed up to the current
        \* state in the trace.
        \* ,_lastOpModCount |->
        \*     LET F[s \in DOMAIN _TETrace] ==
        \*         IF s = 1 THEN 0
        \*         ELSE IF _TETrace[s].lastOp # _TETrace[s-1].lastOp
        \*             THEN 1 + F[s-1] ELSE F[s-1]
        \*     IN F[_TEPosition - 1]
    ]

=============================================================================



Parsing and semantic processing can take forever if the trace below is long.
 In this case, it is advised to uncomment the module below to deserialize the
 trace from a generated binary file.

\*
\*---- MODULE UtImpl_TETrace ----
\*EXTENDS IOUtils, TLC, UtImpl
\*
\*trace == IODeserialize("UtImpl_TTrace_1791023277.bin", TRUE)
\*
\*=============================================================================
\*

---- MODULE UtImpl_TETrace ----
EXTENDS TLC, UtImpl

trace == 
    <<
    ([ttlList |-> <<>>,st |-> [ttl |-> 3, store |-> <<0, 0, 0>>, size |-> 0, cnt |-> <<0, 0, 0>>, rec |-> <<>>, queue |-> <<>>, stamp |-> <<0, 0, 0>>, dl |-> <<0, 0, 0>>, unr |-> {}],stale |-> FALSE,cfg |-> [kind |-> "utmap", cap |-> 0, tick |-> 1, rnum |-> 1, rsh |-> 0, ttl0 |-> 3],now |-> 0,map |-> <<0, 0, 0>>,lastOp |-> [op |-> "init"]]),
    ([ttlList |-> <<<<3, 3>>>>,st |-> [ttl |-> 3, store |-> <<0, 0, 0>>, size |-> 0, cnt |-> <<0, 0, 0>>, rec |-> <<>>, queue |-> <<>>, stamp |-> <<0, 0, 0>>, dl |-> <<0, 0, 0>>, unr |-> {}],stale |-> FALSE,cfg |-> [kind |-> "utmap", cap |-> 0, tick |-> 1, rnum |-> 1, rsh |-> 0, ttl0 |-> 3],now |-> 0,map |-> <<0, 0, 1>>,lastOp |-> [k |-> 3, op |-> "ins"]]),
    ([ttlList |-> <<<<3, 3>>, <<3, 1>>>>,st |-> [ttl |-> 3, store |-> <<0, 0, 0>>, size |-> 0, cnt |-> <<0, 0, 0>>, rec |-> <<>>, queue |-> <<>>, stamp |-> <<0, 0, 0>>, dl |-> <<0, 0, 0>>, unr |-> {}],stale |-> FALSE,cfg |-> [kind |-> "utmap", cap |-> 0, tick |-> 1, rnum |-> 1, rsh |-> 0, ttl0 |-> 3],now |-> 0,map |-> <<1, 0, 1>>,lastOp |-> [k |-> 1, op |-> "ins"]]),
    ([ttlList |-> <<<<3, 3>>, <<3, 1>>>>,st |-> [ttl |-> 3, store |-> <<0, 0, 0>>, size |-> 0, cnt |-> <<0, 0, 0>>, rec |-> <<>>, queue |-> <<>>, stamp |-> <<0, 0, 0>>, dl |-> <<0, 0, 0>>, unr |-> {}],stale |-> FALSE,cfg |-> [kind |-> "utmap", cap |-> 0, tick |-> 1, rnum |-> 1, rsh |-> 0, ttl0 |-> 3],now |-> 1,map |-> <<1, 0, 1>>,lastOp |-> [op |-> "tick"]]),
    ([ttlList |-> <<<<4, 3>>, <<3, 1>>>>,st |-> [ttl |-> 3, store |-> <<0, 0, 0>>, size |-> 0, cnt |-> <<0, 0, 0>>, rec |-> <<>>, queue |-> <<>>, stamp |-> <<0, 0, 0>>, dl |-> <<0, 0, 0>>, unr |-> {}],stale |-> FALSE,cfg |-> [kind |-> "utmap", cap |-> 0, tick |-> 1, rnum |-> 1, rsh |-> 0, ttl0 |-> 3],now |-> 1,map |-> <<1, 0, 1>>,lastOp |-> [k |-> 3, op |-> "ins"]])
    >>
----


=============================================================================

---- CONFIG UtImpl_TTrace_1791023277 ----
CONSTANTS
    Keys = { 1 , 2 , 3 }
    Strict = { }
    Ttl = 3
    Vals = { 1 , 2 }
    TickSteps = { 1 , 2 }
    UpdateKeepsPlace = TRUE

INVARIANT
    _inv

CHECK_DEADLOCK
    \* CHECK_DEADLOCK off because of PROPERTY or INVARIANT above.
    FALSE

INIT
    _init

NEXT
    _next

CONSTANT
    _TETrace <- _trace

ALIAS
    _expression
=============================================================================
\* Generated on Sat Oct 03 10:27:59 UTC 2026