---- MODULE ListImpl_TTrace_1791024568 ----
EXTENDS Sequences, TLCExt, ListImpl, Toolbox, Naturals, TLC

_expression ==
    LET ListImpl_TEExpression == INSTANCE ListImpl_TEExpression
    IN ListImpl_TEExpression!expression
----

_trace ==
    LET ListImpl_TETrace == INSTANCE ListImpl_TETrace
    IN ListImpl_TETrace!trace
----

_inv ==
    ~(
        TLCGet("level") = Len(_TETrace)
        /\
        st = ([ttl |-> 3, store |-> <<0, 0, 0>>, size |-> 0, cnt |-> <<0, 0, 0>>, rec |-> <<>>, queue |-> <<>>, stamp |-> <<0, 0, 0>>, dl |-> <<0, 0, 0>>, unr |-> {}])
        /\
        endIt = (1)
        /\
        cfg = ([kind |-> "utlru", cap |-> 2, tick |-> 1, rnum |-> 1, rsh |-> 0, ttl0 |-> 3])
        /\
        index = (<<0, 0, 0>>)
        /\
        used = (0)
        /\
        lst = (<<1, 2>>)
        /\
        ttl = (3)
        /\
        ub = (FALSE)
        /\
        lastOp = ([op |-> "clear"])
        /\
        ttlList = (<<1>>)
        /\
        eInTtl = (<<TRUE, FALSE>>)
        /\
        eVal = (<<1, 0>>)
        /\
        eKey = (<<1, 0>>)
        /\
        eExp = (<<3, 0>>)
        /\
        now = (0)
    )
----

_init ==
    /\ lst = _TETrace[1].lst
    /\ lastOp = _TETrace[1].lastOp
    /\ eKey = _TETrace[1].eKey
    /\ ttl = _TETrace[1].ttl
    /\ index = _TETrace[1].index
    /\ cfg = _TETrace[1].cfg
    /\ eExp = _TETrace[1].eExp
    /\ ttlList = _TETrace[1].ttlList
    /\ now = _TETrace[1].now
    /\ eInTtl = _TETrace[1].eInTtl
    /\ used = _TETrace[1].used
    /\ eVal = _TETrace[1].eVal
    /\ st = _TETrace[1].st
    /\ ub = _TETrace[1].ub
    /\ endIt = _TETrace[1].endIt
----

_next ==
    /\ \E i,j \in DOMAIN _TETrace:
        /\ \/ /\ j = i + 1
              /\ i = TLCGet("level")
        /\ lst  = _TETrace[i].lst
        /\ lst' = _TETrace[j].lst
        /\ lastOp  = _TETrace[i].lastOp
        /\ lastOp' = _TETrace[j].lastOp
        /\ eKey  = _TETrace[i].eKey
        /\ eKey' = _TETrace[j].eKey
        /\ ttl  = _TETrace[i].ttl
        /\ ttl' = _TETrace[j].ttl
        /\ index  = _TETrace[i].index
        /\ index' = _TETrace[j].index
        /\ cfg  = _TETrace[i].cfg
        /\ cfg' = _TETrace[j].cfg
        /\ eExp  = _TETrace[i].eExp
        /\ eExp' = _TETrace[j].eExp
        /\ ttlList  = _TETrace[i].ttlList
        /\ ttlList' = _TETrace[j].ttlList
        /\ now  = _TETrace[i].now
        /\ now' = _TETrace[j].now
        /\ eInTtl  = _TETrace[i].eInTtl
        /\ eInTtl' = _TETrace[j].eInTtl
        /\ used  = _TETrace[i].used
        /\ used' = _TETrace[j].used
        /\ eVal  = _TETrace[i].eVal
        /\ eVal' = _TETrace[j].eVal
        /\ st  = _TETrace[i].st
        /\ st' = _TETrace[j].st
        /\ ub  = _TETrace[i].ub
        /\ ub' = _TETrace[j].ub
        /\ endIt  = _TETrace[i].endIt
        /\ endIt' = _TETrace[j].endIt

\* Uncomment the ASSUME below to write the states of the error trace
\* to the given file in Json format. Note that you can pass any tuple
\* to `JsonSerialize`. For example, a sub-sequence of _TETrace.
    \* ASSUME
    \*     LET J == INSTANCE Json
    \*         IN J!JsonSerialize("ListImpl_TTrace_1791024568.json", _TETrace)

=============================================================================

 Note that you can extract this module `ListImpl_TEExpression`
  to a dedicated file to reuse `expression` (the module in the 
  dedicated `ListImpl_TEExpression.tla` file takes precedence 
  over the module `ListImpl_TEExpression` below).

---- MODULE ListImpl_TEExpression ----
EXTENDS Sequences, TLCExt, ListImpl, Toolbox, Naturals, TLC

expression == 
    [
        \* To hide variables of the `ListImpl` spec from the error trace,
        \* remove the variables below.  The trace will be written in the order
        \* of the fields of this record.
        lst |-> lst
        ,lastOp |-> lastOp
        ,eKey |-> eKey
        ,ttl |-> ttl
        ,index |-> index
        ,cfg |-> cfg
        ,eExp |-> eExp
        ,ttlList |-> ttlList
        ,now |-> now
        ,eInTtl |-> eInTtl
        ,used |-> used
        ,eVal |-> eVal
        ,st |-> st
        ,ub |-> ub
        ,endIt |-> endIt
        
        \* Put additional constant-, state-, and action-level expressions here:
        \* ,_stateNumber |-> _TEPosition
        \* ,_lstUnchanged |-> lst = lst'
        
        \* Format the `lst` variable as Json value.
        \* ,_lstJson |->
        \*     LET J == INSTANCE Json
        \*     IN J!ToJson(lst)
        
        \* Lastly, you may build expressions over arbitrary sets of states by
        \* leveraging the _TETrace operator.  For example, this is how to
        \* count the number of times a spec variable changed up to the current
        \* state in the trace.
        \* ,_lstModCount |->
        \*     LET F[s \in DOMAIN _TETrace] ==
        \*         IF s = 1 THEN 0
        \*         ELSE IF _TETrace[s].lst # _TETrace[s-1].lst
        \*             THEN 1 + F[s-1] ELSE F[s-1]
        \*     IN F[_TEPosition - 1]
    ]

=============================================================================



Parsing and semantic processing can take forever if the trace below is long.
 In this case, it is advised to uncomment the module below to deserialize the
 trace from a generated binary file.

\*
\*---- MODULE ListImpl_TETrace ----
\*EXTENDS IOUtils, ListImpl, TLC
\*
\*trace == IODeserialize("ListImpl_TTrace_1791024568.bin", TRUE)
\*
\*=============================================================================
\*

---- MODULE ListImpl_TETrace ----
EXTENDS ListImpl, TLC

trace == 
    <<
    ([st |-> [ttl |-> 3, store |-> <<0, 0, 0>>, size |-> 0, cnt |-> <<0, 0, 0>>, rec |-> <<>>, queue |-> <<>>, stamp |-> <<0, 0, 0>>, dl |-> <<0, 0, 0>>, unr |-> {}],endIt |-> 1,cfg |-> [kind |-> "utlru", cap |-> 2, tick |-> 1, rnum |-> 1, rsh |-> 0, ttl0 |-> 3],index |-> <<0, 0, 0>>,used |-> 0,lst |-> <<1, 2>>,ttl |-> 3,ub |-> FALSE,lastOp |-> [op |-> "init"],ttlList |-> <<>>,eInTtl |-> <<FALSE, FALSE>>,eVal |-> <<0, 0>>,eKey |-> <<0, 0>>,eExp |-> <<0, 0>>,now |-> 0]),
    ([st |-> [ttl |-> 3, store |-> <<0, 0, 0>>, size |-> 0, cnt |-> <<0, 0, 0>>, rec |-> <<>>, queue |-> <<>>, stamp |-> <<0, 0, 0>>, dl |-> <<0, 0, 0>>, unr |-> {}],endIt |-> 2,cfg |-> [kind |-> "utlru", cap |-> 2, tick |-> 1, rnum |-> 1, rsh |-> 0, ttl0 |-> 3],index |-> <<1, 0, 0>>,used |-> 1,lst |-> <<1, 2>>,ttl |-> 3,ub |-> FALSE,lastOp |-> [k |-> 1, op |-> "ins", v |-> 1, a |-> 1],ttlList |-> <<1>>,eInTtl |-> <<TRUE, FALSE>>,eVal |-> <<1, 0>>,eKey |-> <<1, 0>>,eExp |-> <<3, 0>>,now |-> 0]),
    ([st |-> [ttl |-> 3, store |-> <<0, 0, 0>>, size |-> 0, cnt |-> <<0, 0, 0>>, rec |-> <<>>, queue |-> <<>>, stamp |-> <<0, 0, 0>>, dl |-> <<0, 0, 0>>, unr |-> {}],endIt |-> 1,cfg |-> [kind |-> "utlru", cap |-> 2, tick |-> 1, rnum |-> 1, rsh |-> 0, ttl0 |-> 3],index |-> <<0, 0, 0>>,used |-> 0,lst |-> <<1, 2>>,ttl |-> 3,ub |-> FALSE,lastOp |-> [op |-> "clear"],ttlList |-> <<1>>,eInTtl |-> <<TRUE, FALSE>>,eVal |-> <<1, 0>>,eKey |-> <<1, 0>>,eExp |-> <<3, 0>>,now |-> 0])
    >>
----


=============================================================================

---- CONFIG ListImpl_TTrace_1791024568 ----
CONSTANTS
    Keys = { 1 , 2 , 3 }
    Strict = { }
    Kind = "utlru"
    Cap = 2
    Vals = { 1 }
    Ttls = { 1 , 3 }
    TickSteps = { 1 , 2 }
    TtlWriteOrder = FALSE
    ClearKeepsTtl = TRUE
    UpdateFilesOld = FALSE
    EraseToListEnd = FALSE

INVARIANT
    _inv

CHECK_DEADLOCK
    \* CHECK_DEADLOCK off because of PROPERTY or INVARIANT above.
    FALSE

INIT
    _init

NEXT
    _next

CONSTANT
    _TETrace <- _trace

ALIAS
    _expression
=============================================================================
\* Generated on Sat Oct 03 10:49:30 UTC 2026