------------------------------- MODULE UtImpl -------------------------------
(***************************************************************************)
(* Implementation-shaped model of ut_map / ut_set: a std::map key -> value *)
(* (node iterators are stable) and the ttl list of <<expire time, key>> in *)
(* write order; every entry stores the iterator of its ttl node and every  *)
(* ttl node the iterator of its map node.  Every public call first erases  *)
(* the expired PREFIX of the ttl list (do_prune) and then trusts the map:  *)
(* lookups do not test the deadline, so C04/C17 rest on the list being     *)
(* sorted by expire time, which holds because the ttl is uniform and the   *)
(* clock is read under the lock.                                           *)
(* UpdateKeepsPlace = TRUE: do_update rewrites the expire time but leaves  *)
(* the node where it is (a slip that serves stale data): must be refuted.  *)
(***************************************************************************)
EXTENDS Cappuccino

CONSTANTS Ttl, Vals, TickSteps, UpdateKeepsPlace

VARIABLES map,      \* key -> value, None if no map node
          ttlList,  \* sequence of <<expire, key>>
          lastOp, stale

uvars == <<map, ttlList, lastOp, stale, cfg, now, st>>

Init ==
  /\ map = [k \in Keys |-> None]
  /\ ttlList = <<>>
  /\ lastOp = [op |-> "init"]
  /\ stale = FALSE
  /\ cfg = [kind |-> "utmap", cap |-> 0, tick |-> 1, rnum |-> 1, rsh |-> 0, ttl0 |-> Ttl]
  /\ now = 0
  /\ st = InitState(Ttl)

\* do_prune(now): erase the expired prefix
RECURSIVE PrefixLen(_, _, _)
PrefixLen(l, t, n) == IF n < Len(l) /\ t >= l[n + 1][1] THEN PrefixLen(l, t, n + 1) ELSE n
Pruned(m, l, t) ==
  LET n == PrefixLen(l, t, 0)
      dead == {l[i][2] : i \in 1..n} IN
  [map |-> [k \in Keys |-> IF k \in dead THEN None ELSE m[k]], lst |-> SubSeq(l, n + 1, Len(l)), n |-> n]

NodeOf(l, k) == {i \in 1..Len(l) : l[i][2] = k}

Insert(k, v, a) ==
  LET p == Pruned(map, ttlList, now)
      exp == now + Ttl IN
  /\ lastOp' = [op |-> "ins", k |-> k]
  /\ IF p.map[k] # None
     THEN IF UpdAllowed(a)
          THEN /\ map' = [p.map EXCEPT ![k] = v]
               /\ ttlList' = IF UpdateKeepsPlace
                             THEN [i \in 1..Len(p.lst) |-> IF p.lst[i][2] = k THEN <<exp, k>> ELSE p.lst[i]]
                             ELSE Append(SelectSeq(p.lst, LAMBDA e : e[2] # k), <<exp, k>>)
          ELSE map' = p.map /\ ttlList' = p.lst
     ELSE IF InsAllowed(a)
          THEN map' = [p.map EXCEPT ![k] = v] /\ ttlList' = Append(p.lst, <<exp, k>>)
          ELSE map' = p.map /\ ttlList' = p.lst
  /\ UNCHANGED <<now, stale>>

Erase(k) ==
  LET p == Pruned(map, ttlList, now) IN
  /\ lastOp' = [op |-> "era", k |-> k]
  /\ map' = [p.map EXCEPT ![k] = None]
  /\ ttlList' = SelectSeq(p.lst, LAMBDA e : e[2] # k)
  /\ UNCHANGED <<now, stale>>

\* a lookup serves whatever the map holds after the prefix purge
Find(k) ==
  LET p == Pruned(map, ttlList, now) IN
  /\ lastOp' = [op |-> "find", k |-> k]
  /\ map' = p.map /\ ttlList' = p.lst
  /\ stale' = (stale \/ (p.map[k] # None /\ \E i \in NodeOf(p.lst, k) : now >= p.lst[i][1]))
  /\ UNCHANGED now

Tick(d) == /\ lastOp' = [op |-> "tick"] /\ now' = now + d /\ UNCHANGED <<map, ttlList, stale>>

Next ==
  /\ \/ \E k \in Keys, v \in Vals, a \in {1, 2, 3} : Insert(k, v, a)
     \/ \E k \in Keys : Erase(k)
     \/ \E k \in Keys : Find(k)
     \/ \E d \in TickSteps : Tick(d)
  /\ UNCHANGED <<cfg, st>>

Spec == Init /\ [][Next]_uvars

View == <<map, [i \in 1..Len(ttlList) |-> <<Max2(ttlList[i][1] - now, 0), ttlList[i][2]>>], stale>>

OneToOne == /\ \A k \in Keys : (map[k] # None) = (Cardinality(NodeOf(ttlList, k)) = 1)
            /\ \A k \in Keys : Cardinality(NodeOf(ttlList, k)) <= 1
TtlSorted == \A i, j \in 1..Len(ttlList) : i < j => ttlList[i][1] <= ttlList[j][1]
NeverServesExpired == ~stale
=============================================================================
