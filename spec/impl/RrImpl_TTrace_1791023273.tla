---- MODULE RrImpl_TTrace_1791023273 ----
EXTENDS Sequences, TLCExt, RrImpl, Toolbox, Naturals, TLC

_expression ==
    LET RrImpl_TEExpression == INSTANCE RrImpl_TEExpression
    IN RrImpl_TEExpression!expression
----

_trace ==
    LET RrImpl_TETrace == INSTANCE RrImpl_TETrace
    IN RrImpl_TETrace!trace
----

_inv ==
    ~(
        TLCGet("level") = Len(_TETrace)
        /\
        openList = ((0 :> 1 @@ 1 :> 0 @@ 2 :> 2))
        /\
        elemVal = ((0 :> 1 @@ 1 :> 1 @@ 2 :> 0))
        /\
        st = ([store |-> <<0, 0, 0>>, size |-> 0, ttl |-> 0, cnt |-> <<0, 0, 0>>, rec |-> <<>>, queue |-> <<>>, stamp |-> <<0, 0, 0>>, dl |-> <<0, 0, 0>>, unr |-> {}])
        /\
        elemKey = ((0 :> 1 @@ 1 :> 3 @@ 2 :> 0))
        /\
        cfg = ([kind |-> "rr", cap |-> 3, tick |-> 1, rnum |-> 1, rsh |-> 0, ttl0 |-> 0])
        /\
        now = (0)
        /\
        elemPos = ((0 :> 0 @@ 1 :> 1 @@ 2 :> 0))
        /\
        index = (<<-1, -1, 1>>)
        /\
        end = (1)
        /\
        ub = (FALSE)
        /\
        lastOp = ([k |-> 1, op |-> "era"])
    )
----

_init ==
    /\ end = _TETrace[1].end
    /\ lastOp = _TETrace[1].lastOp
    /\ elemKey = _TETrace[1].elemKey
    /\ index = _TETrace[1].index
    /\ cfg = _TETrace[1].cfg
    /\ now = _TETrace[1].now
    /\ openList = _TETrace[1].openList
    /\ elemVal = _TETrace[1].elemVal
    /\ st = _TETrace[1].st
    /\ elemPos = _TETrace[1].elemPos
    /\ ub = _TETrace[1].ub
----

_next ==
    /\ \E i,j \in DOMAIN _TETrace:
        /\ \/ /\ j = i + 1
              /\ i = TLCGet("level")
        /\ end  = _TETrace[i].end
        /\ end' = _TETrace[j].end
        /\ lastOp  = _TETrace[i].lastOp
        /\ lastOp' = _TETrace[j].lastOp
        /\ elemKey  = _TETrace[i].elemKey
        /\ elemKey' = _TETrace[j].elemKey
        /\ index  = _TETrace[i].index
        /\ index' = _TETrace[j].index
        /\ cfg  = _TETrace[i].cfg
        /\ cfg' = _TETrace[j].cfg
        /\ now  = _TETrace[i].now
        /\ now' = _TETrace[j].now
        /\ openList  = _TETrace[i].openList
        /\ openList' = _TETrace[j].openList
        /\ elemVal  = _TETrace[i].elemVal
        /\ elemVal' = _TETrace[j].elemVal
        /\ st  = _TETrace[i].st
        /\ st' = _TETrace[j].st
        /\ elemPos  = _TETrace[i].elemPos
        /\ elemPos' = _TETrace[j].elemPos
        /\ ub  = _TETrace[i].ub
        /\ ub' = _TETrace[j].ub

\* Uncomment the ASSUME below to write the states of the error trace
\* to the given file in Json format. Note that you can pass any tuple
\* to `JsonSerialize`. For example, a sub-sequence of _TETrace.
    \* ASSUME
    \*     LET J == INSTANCE Json
    \*         IN J!JsonSerialize("RrImpl_TTrace_1791023273.json", _TETrace)

=============================================================================

 Note that you can extract this module `RrImpl_TEExpression`
  to a dedicated file to reuse `expression` (the module in the 
  dedicated `RrImpl_TEExpression.tla` file takes precedence 
  over the module `RrImpl_TEExpression` below).

---- MODULE RrImpl_TEExpression ----
EXTENDS Sequences, TLCExt, RrImpl, Toolbox, Naturals, TLC

expression == 
    [
        \* To hide variables of the `RrImpl` spec from the error trace,
        \* remove the variables below.  The trace will be written in the order
        \* of the fields of this record.
        end |-> end
        ,lastOp |-> lastOp
        ,elemKey |-> elemKey
        ,index |-> index
        ,cfg |-> cfg
        ,now |-> now
        ,openList |-> openList
        ,elemVal |-> elemVal
        ,st |-> st
        ,elemPos |-> elemPos
        ,ub |-> ub
        
        \* Put additional constant-, state-, and action-level expressions here:
        \* ,_stateNumber |-> _TEPosition
        \* ,_endUnchanged |-> end = end'
        
        \* Format the `end` variable as Json value.
        \* ,_endJson |->
        \*     LET J == INSTANCE Json
        \*     IN J!ToJson(end)
        
        \* Lastly, you may build expressions over arbitrary sets of states by
        \* leveraging the _TETrace operator.  For example, this is how to
        \* count the number of times a spec variable changed up to the current
        \* state in the trace.
        \* ,_endModCount |->
        \*     LET F[s \in DOMAIN _TETrace] ==
        \*         IF s = 1 THEN 0
        \*         ELSE IF _TETrace[s].end # _TETrace[s-1].end
        \*             THEN 1 + F[s-1] ELSE F[s-1]
        \*     IN F[_TEPosition - 1]
    ]

=============================================================================



Parsing and semantic processing can take forever if the trace below is long.
 In this case, it is advised to uncomment the module below to deserialize the
 trace from a generated binary file.

\*
\*---- MODULE RrImpl_TETrace ----
\*EXTENDS IOUtils, RrImpl, TLC
\*
\*trace == IODeserialize("RrImpl_TTrace_1791023273.bin", TRUE)
\*
\*=============================================================================
\*

---- MODULE RrImpl_TETrace ----
EXTENDS RrImpl, TLC

trace == 
    <<
    ([openList |-> (0 :> 0 @@ 1 :> 1 @@ 2 :> 2),elemVal |-> (0 :> 0 @@ 1 :> 0 @@ 2 :> 0),st |-> [store |-> <<0, 0, 0>>, size |-> 0, ttl |-> 0, cnt |-> <<0, 0, 0>>, rec |-> <<>>, queue |-> <<>>, stamp |-> <<0, 0, 0>>, dl |-> <<0, 0, 0>>, unr |-> {}],elemKey |-> (0 :> 0 @@ 1 :> 0 @@ 2 :> 0),cfg |-> [kind |-> "rr", cap |-> 3, tick |-> 1, rnum |-> 1, rsh |-> 0, ttl0 |-> 0],now |-> 0,elemPos |-> (0 :> 0 @@ 1 :> 0 @@ 2 :> 0),index |-> <<-1, -1, -1>>,end |-> 0,ub |-> FALSE,lastOp |-> [op |-> "init"]]),
    ([openList |-> (0 :> 0 @@ 1 :> 1 @@ 2 :> 2),elemVal |-> (0 :> 1 @@ 1 :> 0 @@ 2 :> 0),st |-> [store |-> <<0, 0, 0>>, size |-> 0, ttl |-> 0, cnt |-> <<0, 0, 0>>, rec |-> <<>>, queue |-> <<>>, stamp |-> <<0, 0, 0>>, dl |-> <<0, 0, 0>>, unr |-> {}],elemKey |-> (0 :> 1 @@ 1 :> 0 @@ 2 :> 0),cfg |-> [kind |-> "rr", cap |-> 3, tick |-> 1, rnum |-> 1, rsh |-> 0, ttl0 |-> 0],now |-> 0,elemPos |-> (0 :> 0 @@ 1 :> 0 @@ 2 :> 0),index |-> <<0, -1, -1>>,end |-> 1,ub |-> FALSE,lastOp |-> [k |-> 1, op |-> "ins", v |-> 1, a |-> 1]]),
    ([openList |-> (0 :> 0 @@ 1 :> 1 @@ 2 :> 2),elemVal |-> (0 :> 1 @@ 1 :> 1 @@ 2 :> 0),st |-> [store |-> <<0, 0, 0>>, size |-> 0, ttl |-> 0, cnt |-> <<0, 0, 0>>, rec |-> <<>>, queue |-> <<>>, stamp |-> <<0, 0, 0>>, dl |-> <<0, 0, 0>>, unr |-> {}],elemKey |-> (0 :> 1 @@ 1 :> 3 @@ 2 :> 0),cfg |-> [kind |-> "rr", cap |-> 3, tick |-> 1, rnum |-> 1, rsh |-> 0, ttl0 |-> 0],now |-> 0,elemPos |-> (0 :> 0 @@ 1 :> 1 @@ 2 :> 0),index |-> <<0, -1, 1>>,end |-> 2,ub |-> FALSE,lastOp |-> [k |-> 3, op |-> "ins", v |-> 1, a |-> 1]]),
    ([openList |-> (0 :> 1 @@ 1 :> 0 @@ 2 :> 2),elemVal |-> (0 :> 1 @@ 1 :> 1 @@ 2 :> 0),st |-> [store |-> <<0, 0, 0>>, size |-> 0, ttl |-> 0, cnt |-> <<0, 0, 0>>, rec |-> <<>>, queue |-> <<>>, stamp |-> <<0, 0, 0>>, dl |-> <<0, 0, 0>>, unr |-> {}],elemKey |-> (0 :> 1 @@ 1 :> 3 @@ 2 :> 0),cfg |-> [kind |-> "rr", cap |-> 3, tick |-> 1, rnum |-> 1, rsh |-> 0, ttl0 |-> 0],now |-> 0,elemPos |-> (0 :> 0 @@ 1 :> 1 @@ 2 :> 0),index |-> <<-1, -1, 1>>,end |-> 1,ub |-> FALSE,lastOp |-> [k |-> 1, op |-> "era"]])
    >>
----


=============================================================================

---- CONFIG RrImpl_TTrace_1791023273 ----
CONSTANTS
    Keys = { 1 , 2 , 3 }
    Strict = { }
    Cap = 3
    Vals = { 1 }
    Pinned = TRUE

INVARIANT
    _inv

CHECK_DEADLOCK
    \* CHECK_DEADLOCK off because of PROPERTY or INVARIANT above.
    FALSE

INIT
    _init

NEXT
    _next

CONSTANT
    _TETrace <- _trace

ALIAS
    _expression
=============================================================================
\* Generated on Sat Oct 03 10:27:56 UTC 2026