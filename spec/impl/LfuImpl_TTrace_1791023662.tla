---- MODULE LfuImpl_TTrace_1791023662 ----
EXTENDS LfuImpl, Sequences, TLCExt, Toolbox, Naturals, TLC

_expression ==
    LET LfuImpl_TEExpression == INSTANCE LfuImpl_TEExpression
    IN LfuImpl_TEExpression!expression
----

_trace ==
    LET LfuImpl_TETrace == INSTANCE LfuImpl_TETrace
    IN LfuImpl_TETrace!trace
----

_inv ==
    ~(
        TLCGet("level") = Len(_TETrace)
        /\
        st = ([ttl |-> 0, store |-> <<0, 0, 0>>, size |-> 0, cnt |-> <<0, 0, 0>>, rec |-> <<>>, queue |-> <<>>, stamp |-> <<0, 0, 0>>, dl |-> <<0, 0, 0>>, unr |-> {}])
        /\
        endIt = (3)
        /\
        cfg = ([kind |-> "lfuda", cap |-> 3, tick |-> 2, rnum |-> 1, rsh |-> 1, ttl0 |-> 0])
        /\
        index = (<<0, 1, 2>>)
        /\
        used = (2)
        /\
        lst = (<<1, 2, 3>>)
        /\
        ub = (FALSE)
        /\
        lastOp = ([k |-> 2, op |-> "ins", a |-> 2])
        /\
        eAge = (<<1, 0, 0>>)
        /\
        eKey = (<<2, 3, 0>>)
        /\
        now = (1)
        /\
        lfu = (<<<<1, 2>>, <<2, 1>>>>)
        /\
        ageOk = (TRUE)
    )
----

_init ==
    /\ lst = _TETrace[1].lst
    /\ lastOp = _TETrace[1].lastOp
    /\ eKey = _TETrace[1].eKey
    /\ ageOk = _TETrace[1].ageOk
    /\ index = _TETrace[1].index
    /\ cfg = _TETrace[1].cfg
    /\ now = _TETrace[1].now
    /\ lfu = _TETrace[1].lfu
    /\ eAge = _TETrace[1].eAge
    /\ used = _TETrace[1].used
    /\ st = _TETrace[1].st
    /\ ub = _TETrace[1].ub
    /\ endIt = _TETrace[1].endIt
----

_next ==
    /\ \E i,j \in DOMAIN _TETrace:
        /\ \/ /\ j = i + 1
              /\ i = TLCGet("level")
        /\ lst  = _TETrace[i].lst
        /\ lst' = _TETrace[j].lst
        /\ lastOp  = _TETrace[i].lastOp
        /\ lastOp' = _TETrace[j].lastOp
        /\ eKey  = _TETrace[i].eKey
        /\ eKey' = _TETrace[j].eKey
        /\ ageOk  = _TETrace[i].ageOk
        /\ ageOk' = _TETrace[j].ageOk
        /\ index  = _TETrace[i].index
        /\ index' = _TETrace[j].index
        /\ cfg  = _TETrace[i].cfg
        /\ cfg' = _TETrace[j].cfg
        /\ now  = _TETrace[i].now
        /\ now' = _TETrace[j].now
        /\ lfu  = _TETrace[i].lfu
        /\ lfu' = _TETrace[j].lfu
        /\ eAge  = _TETrace[i].eAge
        /\ eAge' = _TETrace[j].eAge
        /\ used  = _TETrace[i].used
        /\ used' = _TETrace[j].used
        /\ st  = _TETrace[i].st
        /\ st' = _TETrace[j].st
        /\ ub  = _TETrace[i].ub
        /\ ub' = _TETrace[j].ub
        /\ endIt  = _TETrace[i].endIt
        /\ endIt' = _TETrace[j].endIt

\* Uncomment the ASSUME below to write the states of the error trace
\* to the given file in Json format. Note that you can pass any tuple
\* to `JsonSerialize`. For example, a sub-sequence of _TETrace.
    \* ASSUME
    \*     LET J == INSTANCE Json
    \*         IN J!JsonSerialize("LfuImpl_TTrace_1791023662.json", _TETrace)

=============================================================================

 Note that you can extract this module `LfuImpl_TEExpression`
  to a dedicated file to reuse `expression` (the module in the 
  dedicated `LfuImpl_TEExpression.tla` file takes precedence 
  over the module `LfuImpl_TEExpression` below).

---- MODULE LfuImpl_TEExpression ----
EXTENDS LfuImpl, Sequences, TLCExt, Toolbox, Naturals, TLC

expression == 
    [
        \* To hide variables of the `LfuImpl` spec from the error trace,
        \* remove the variables below.  The trace will be written in the order
        \* of the fields of this record.
        lst |-> lst
        ,lastOp |-> lastOp
        ,eKey |-> eKey
        ,ageOk |-> ageOk
        ,index |-> index
        ,cfg |-> cfg
        ,now |-> now
        ,lfu |-> lfu
        ,eAge |-> eAge
        ,used |-> used
        ,st |-> st
        ,ub |-> ub
        ,endIt |-> endIt
        
        \* Put additional constant-, state-, and action-level expressions here:
        \* ,_stateNumber |-> _TEPosition
        \* ,_lstUnchanged |-> lst = lst'
        
        \* Format the `lst` variable as Json value.
        \* ,_lstJson |->
        \*     LET J == INSTANCE Json
        \*     IN J!ToJson(lst)
        
        \* Lastly, you may build expressions over arbitrary sets of states by
        \* leveraging the _TETrace operator.  For example, this is how to
        \* count the number of times a spec variable changed up to the current
        \* state in the trace.
        \* ,_lstModCount |->
        \*     LET F[s \in DOMAIN _TETrace] ==
        \*         IF s = 1 THEN 0
        \*         ELSE IF _TETrace[s].lst # _TETrace[s-1].lst
        \*             THEN 1 + F[s-1] ELSE F[s-1]
        \*     IN F[_TEPosition - 1]
    ]

=============================================================================



Parsing and semantic processing can take forever if the trace below is long.
 In this case, it is advised to uncomment the module below to deserialize the
 trace from a generated binary file.

\*
\*---- MODULE LfuImpl_TETrace ----
\*EXTENDS LfuImpl, IOUtils, TLC
\*
\*trace == IODeserialize("LfuImpl_TTrace_1791023662.bin", TRUE)
\*
\*=============================================================================
\*

---- MODULE LfuImpl_TETrace ----
EXTENDS LfuImpl, TLC

trace == 
    <<
    ([st |-> [ttl |-> 0, store |-> <<0, 0, 0>>, size |-> 0, cnt |-> <<0, 0, 0>>, rec |-> <<>>, queue |-> <<>>, stamp |-> <<0, 0, 0>>, dl |-> <<0, 0, 0>>, unr |-> {}],endIt |-> 1,cfg |-> [kind |-> "lfuda", cap |-> 3, tick |-> 2, rnum |-> 1, rsh |-> 1, ttl0 |-> 0],index |-> <<0, 0, 0>>,used |-> 0,lst |-> <<1, 2, 3>>,ub |-> FALSE,lastOp |-> [op |-> "init"],eAge |-> <<0, 0, 0>>,eKey |-> <<0, 0, 0>>,now |-> 0,lfu |-> <<>>,ageOk |-> TRUE]),
    ([st |-> [ttl |-> 0, store |-> <<0, 0, 0>>, size |-> 0, cnt |-> <<0, 0, 0>>, rec |-> <<>>, queue |-> <<>>, stamp |-> <<0, 0, 0>>, dl |-> <<0, 0, 0>>, unr |-> {}],endIt |-> 2,cfg |-> [kind |-> "lfuda", cap |-> 3, tick |-> 2, rnum |-> 1, rsh |-> 1, ttl0 |-> 0],index |-> <<0, 1, 0>>,used |-> 1,lst |-> <<1, 2, 3>>,ub |-> FALSE,lastOp |-> [k |-> 2, op |-> "ins", a |-> 1],eAge |-> <<0, 0, 0>>,eKey |-> <<2, 0, 0>>,now |-> 0,lfu |-> <<<<1, 1>>>>,ageOk |-> TRUE]),
    ([st |-> [ttl |-> 0, store |-> <<0, 0, 0>>, size |-> 0, cnt |-> <<0, 0, 0>>, rec |-> <<>>, queue |-> <<>>, stamp |-> <<0, 0, 0>>, dl |-> <<0, 0, 0>>, unr |-> {}],endIt |-> 3,cfg |-> [kind |-> "lfuda", cap |-> 3, tick |-> 2, rnum |-> 1, rsh |-> 1, ttl0 |-> 0],index |-> <<0, 1, 2>>,used |-> 2,lst |-> <<1, 2, 3>>,ub |-> FALSE,lastOp |-> [k |-> 3, op |-> "ins", a |-> 1],eAge |-> <<0, 0, 0>>,eKey |-> <<2, 3, 0>>,now |-> 0,lfu |-> <<<<1, 1>>, <<1, 2>>>>,ageOk |-> TRUE]),
    ([st |-> [ttl |-> 0, store |-> <<0, 0, 0>>, size |-> 0, cnt |-> <<0, 0, 0>>, rec |-> <<>>, queue |-> <<>>, stamp |-> <<0, 0, 0>>, dl |-> <<0, 0, 0>>, unr |-> {}],endIt |-> 3,cfg |-> [kind |-> "lfuda", cap |-> 3, tick |-> 2, rnum |-> 1, rsh |-> 1, ttl0 |-> 0],index |-> <<0, 1, 2>>,used |-> 2,lst |-> <<1, 2, 3>>,ub |-> FALSE,lastOp |-> [op |-> "tick", d |-> 1],eAge |-> <<0, 0, 0>>,eKey |-> <<2, 3, 0>>,now |-> 1,lfu |-> <<<<1, 1>>, <<1, 2>>>>,ageOk |-> TRUE]),
    ([st |-> [ttl |-> 0, store |-> <<0, 0, 0>>, size |-> 0, cnt |-> <<0, 0, 0>>, rec |-> <<>>, queue |-> <<>>, stamp |-> <<0, 0, 0>>, dl |-> <<0, 0, 0>>, unr |-> {}],endIt |-> 3,cfg |-> [kind |-> "lfuda", cap |-> 3, tick |-> 2, rnum |-> 1, rsh |-> 1, ttl0 |-> 0],index |-> <<0, 1, 2>>,used |-> 2,lst |-> <<1, 2, 3>>,ub |-> FALSE,lastOp |-> [k |-> 2, op |-> "ins", a |-> 2],eAge |-> <<1, 0, 0>>,eKey |-> <<2, 3, 0>>,now |-> 1,lfu |-> <<<<1, 2>>, <<2, 1>>>>,ageOk |-> TRUE])
    >>
----


=============================================================================

---- CONFIG LfuImpl_TTrace_1791023662 ----
CONSTANTS
    Keys = { 1 , 2 , 3 }
    Strict = { }
    Aging = TRUE
    Cap = 3
    AgeTick = 2
    RatioNum = 1
    RatioShift = 1
    TickSteps = { 1 , 3 }
    MaxCnt = 3
    Pinned = TRUE

INVARIANT
    _inv

CHECK_DEADLOCK
    \* CHECK_DEADLOCK off because of PROPERTY or INVARIANT above.
    FALSE

INIT
    _init

NEXT
    _next

CONSTANT
    _TETrace <- _trace

ALIAS
    _expression
=============================================================================
\* Generated on Sat Oct 03 10:34:24 UTC 2026