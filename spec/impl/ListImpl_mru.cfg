SPECIFICATION Spec
CONSTANTS
  Keys = {1,2,3,4}
  Strict = {}
  Kind = "mru"
  Cap = 3
  Vals = {1}
  Ttls = {0}
  TickSteps = {1}
  TtlWriteOrder = FALSE
  ClearKeepsTtl = FALSE
  UpdateFilesOld = FALSE
  EraseToListEnd = FALSE
VIEW View
INVARIANTS NoUB ListIsPermutation PartitionMatchesCount BackPointersInverse IndexWithinCapacity TtlListMatches TtlHeadIsMinimal
CHECK_DEADLOCK FALSE
