SPECIFICATION Spec
CONSTANTS
  Keys = {1,2,3,4}
  Strict = {}
  Cap = 3
  Vals = {1}
  EraseKeepsPlace = TRUE
INVARIANTS ListIsPermutation BackPointersInverse CountMatches FreeNodesFirst NeverEvictsWhileFree
CHECK_DEADLOCK FALSE
