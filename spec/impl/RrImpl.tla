------------------------------- MODULE RrImpl -------------------------------
(***************************************************************************)
(* Implementation-shaped model of rr_cache (inc/cappuccino/rr_cache.hpp):  *)
(* slots 0..Cap-1, the open list vector with its partition point `end`,    *)
(* the hash index key -> slot, and the per-slot back references            *)
(* (m_keyed_position, m_open_list_position).  One action per public call,  *)
(* composed from the do_* helpers exactly as the code composes them.       *)
(*                                                                         *)
(* Pinned = TRUE is the pinned tree's do_erase (D1: the slot swapped out   *)
(* of the last in-use position keeps its old m_open_list_position);        *)
(* Pinned = FALSE is the repaired rule.  Checked: the structural           *)
(* invariants that are memory safety at this level (C08) and the anchors   *)
(* of C01/C02/C03/C15, and that every step is one the operational          *)
(* specification allows (the same judgements the trace judge applies to    *)
(* the real code are applied to the abstraction of each model step).       *)
(***************************************************************************)
EXTENDS Cappuccino

CONSTANTS Cap, Vals, Pinned

VARIABLES elemKey,   \* slot -> key whose index node the slot's m_keyed_position refers to (0: none yet)
          elemPos,   \* slot -> m_open_list_position
          elemVal,   \* slot -> value
          openList,  \* position -> slot
          end,       \* partition point = number of elements
          index,     \* key -> slot, or -1 if the key has no index node
          ub,        \* TRUE once the code would have dereferenced / erased through a stale reference
          lastOp

ivars == <<elemKey, elemPos, elemVal, openList, end, index, ub, lastOp, cfg, now, st>>

Slots == 0..(Cap - 1)
NoSlot == 0 - 1

Init ==
  /\ elemKey = [i \in Slots |-> 0]
  /\ elemPos = [i \in Slots |-> 0]
  /\ elemVal = [i \in Slots |-> 0]
  /\ openList = [p \in Slots |-> p]
  /\ end = 0
  /\ index = [k \in Keys |-> NoSlot]
  /\ ub = FALSE
  /\ lastOp = [op |-> "init"]
  /\ cfg = [kind |-> "rr", cap |-> Cap, tick |-> 1, rnum |-> 1, rsh |-> 0, ttl0 |-> 0]
  /\ now = 0
  /\ st = InitState(0)

\* the abstraction: what the public API would show
AbsStore == [k \in Keys |-> IF index[k] # NoSlot THEN elemVal[index[k]] ELSE None]
Abs == [InitState(0) EXCEPT !.store = AbsStore, !.size = end]

\* do_erase(element_idx) as a function on the structure; returns the new fields
DoErase(s, idx) ==
  LET pos  == s.elemPos[idx]
      last == s.end - 1
      moved == s.openList[last]
      ol2  == IF pos # last
              THEN [s.openList EXCEPT ![pos] = s.openList[last], ![last] = s.openList[pos]]
              ELSE s.openList
      ep2  == IF pos # last /\ ~Pinned
              THEN [s.elemPos EXCEPT ![ol2[pos]] = pos]      \* the repaired rule
              ELSE s.elemPos
      k    == s.elemKey[idx]
      \* erasing through the stored hash iterator: valid only if that node still exists and is ours
      stale == k = 0 \/ s.index[k] # idx \/ pos > last \/ s.openList[pos] # idx
  IN [s EXCEPT !.openList = ol2, !.elemPos = ep2, !.end = last,
               !.index = IF k # 0 /\ s.index[k] = idx THEN [s.index EXCEPT ![k] = NoSlot] ELSE s.index,
               !.ub = s.ub \/ stale]

DoInsert(s, k, v, victim) ==
  LET s1  == IF s.end >= Cap THEN DoErase(s, victim) ELSE s
      idx == s1.openList[s1.end]
      clash == \E k2 \in Keys : k2 # k /\ s1.index[k2] = idx     \* the free slot is still somebody's
  IN [s1 EXCEPT !.index = [s1.index EXCEPT ![k] = idx],
                !.elemKey = [s1.elemKey EXCEPT ![idx] = k],
                !.elemVal = [s1.elemVal EXCEPT ![idx] = v],
                !.elemPos = [s1.elemPos EXCEPT ![idx] = s1.end],
                !.end = s1.end + 1,
                !.ub = s1.ub \/ clash]

Pack == [elemKey |-> elemKey, elemPos |-> elemPos, elemVal |-> elemVal, openList |-> openList, end |-> end,
         index |-> index, ub |-> ub]
Unpack(s) ==
  /\ elemKey' = s.elemKey /\ elemPos' = s.elemPos /\ elemVal' = s.elemVal /\ openList' = s.openList
  /\ end' = s.end /\ index' = s.index /\ ub' = s.ub

Insert(k, v, a) ==
  /\ lastOp' = [op |-> "ins", k |-> k, v |-> v, a |-> a]
  /\ IF index[k] # NoSlot
     THEN IF UpdAllowed(a)
          THEN Unpack([Pack EXCEPT !.elemVal = [elemVal EXCEPT ![index[k]] = v]])
          ELSE Unpack(Pack)
     ELSE IF InsAllowed(a)
          THEN \E victim \in 0..(IF end >= Cap THEN end - 1 ELSE 0) : Unpack(DoInsert(Pack, k, v, victim))
          ELSE Unpack(Pack)

Erase(k) ==
  /\ lastOp' = [op |-> "era", k |-> k]
  /\ IF index[k] # NoSlot THEN Unpack(DoErase(Pack, index[k])) ELSE Unpack(Pack)

Find(k) ==
  /\ lastOp' = [op |-> "find", k |-> k]
  /\ Unpack(Pack)

Next ==
  /\ ~ub
  /\ \/ \E k \in Keys, v \in Vals, a \in {1, 2, 3} : Insert(k, v, a)
     \/ \E k \in Keys : Erase(k)
     \/ \E k \in Keys : Find(k)
  /\ UNCHANGED <<cfg, now, st>>

Spec == Init /\ [][Next]_ivars

\* --------------------------------------------------------------------------
\* structural invariants (C08 at the design level; anchors of C01, C02, C15)
InUse == {openList[p] : p \in 0..(end - 1)}
NoUB == ~ub
OpenListIsPermutation == {openList[p] : p \in Slots} = Slots
PosInverse == \A i \in InUse : elemPos[i] < end /\ openList[elemPos[i]] = i
BackPointersInverse ==
  /\ \A k \in Keys : index[k] # NoSlot => (index[k] \in InUse /\ elemKey[index[k]] = k)
  /\ \A i \in InUse : elemKey[i] # 0 /\ index[elemKey[i]] = i
IndexInjective == \A k1, k2 \in Keys : (k1 # k2 /\ index[k1] # NoSlot) => index[k1] # index[k2]
SizeIsIndexSize == end = Cardinality({k \in Keys : index[k] # NoSlot}) /\ end <= Cap   \* no rehash: |index| <= Cap

\* --------------------------------------------------------------------------
\* every step is one the operational specification allows
AbsOf(e, ix, ev) == [InitState(0) EXCEPT !.store = [k \in Keys |-> IF ix[k] # NoSlot THEN ev[ix[k]] ELSE None],
                                         !.size = e]
StepOk ==
  LET s  == AbsOf(end, index, elemVal)
      s2 == AbsOf(end', index', elemVal')
      o  == lastOp'
      gone == Live(s) \ Live(s2)
  IN ub' \/
     CASE o.op = "ins" ->
            LET out == [ret |-> (s2.store[o.k] = o.v /\ (s.store[o.k] # None => UpdAllowed(o.a))
                                   /\ (s.store[o.k] = None => InsAllowed(o.a))),
                        gone |-> gone, sz |-> s2.size] IN
            /\ OkInsert(AllTags, cfg, now, s, o.k, o.a, 0, out)
            /\ s2.store = ElemInsert(cfg, now, s, o.k, o.v, o.a, 0, out).store
       [] o.op = "era" ->
            LET out == [ret |-> s.store[o.k] # None, gone |-> gone, sz |-> s2.size] IN
            /\ OkErase(AllTags, cfg, now, s, o.k, out)
            /\ s2.store = ElemErase(cfg, now, s, o.k, out).store
       [] OTHER -> s2 = s
RefinesOperational == [][StepOk]_ivars
=============================================================================
