SPECIFICATION Spec
CONSTANTS
  Keys = {1,2,3}
  Strict = {}
  Kind = "utlru"
  Cap = 2
  Vals = {1}
  Ttls = {1,3}
  TickSteps = {1,2}
  TtlWriteOrder = FALSE
  ClearKeepsTtl = TRUE
  UpdateFilesOld = FALSE
  EraseToListEnd = FALSE
VIEW View
INVARIANTS NoUB ListIsPermutation PartitionMatchesCount BackPointersInverse IndexWithinCapacity TtlListMatches TtlHeadIsMinimal
CHECK_DEADLOCK FALSE
