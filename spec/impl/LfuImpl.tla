------------------------------ MODULE LfuImpl -------------------------------
(***************************************************************************)
(* Implementation-shaped model of lfu_cache / lfuda_cache: the element     *)
(* list with its partition iterator (lfuda: the dynamic age list), the     *)
(* multimap use count -> element (std::multimap: a new entry goes behind   *)
(* the existing entries with the same count), the hash index and the       *)
(* per-element back references.  lfuda adds the age timestamp, do_access's *)
(* re-filing in the age list and do_dynamic_age's prefix scan.             *)
(*                                                                         *)
(* Pinned = TRUE: do_access splices the used element in front of the last  *)
(* in-use element (pinned tree, D2); FALSE: behind it (repaired).          *)
(* Checked: structural invariants (C08), the age list is ordered by        *)
(* timestamp (the mechanism of C14), and dynamically_age() ages exactly    *)
(* the idle elements and reports their number.                             *)
(***************************************************************************)
EXTENDS Cappuccino

CONSTANTS Aging,          \* TRUE: lfuda, FALSE: lfu
          Cap, AgeTick, RatioNum, RatioShift, TickSteps, MaxCnt, Pinned

VARIABLES lst, endIt,     \* element list (slot ids) and partition iterator
          lfu,            \* multimap: sequence of <<count, slot>>, non-decreasing in count
          index, eKey, eAge,
          used, ub, ageOk, lastOp

fvars == <<lst, endIt, lfu, index, eKey, eAge, used, ub, ageOk, lastOp, cfg, now, st>>

Slots == 1..Cap
EndIt == 0
NoSlot == 0

Init ==
  /\ lst = [i \in 1..Cap |-> i] /\ endIt = 1
  /\ lfu = <<>>
  /\ index = [k \in Keys |-> NoSlot]
  /\ eKey = [i \in Slots |-> 0] /\ eAge = [i \in Slots |-> 0]
  /\ used = 0 /\ ub = FALSE /\ ageOk = TRUE
  /\ lastOp = [op |-> "init"]
  /\ cfg = [kind |-> IF Aging THEN "lfuda" ELSE "lfu", cap |-> Cap, tick |-> AgeTick, rnum |-> RatioNum,
            rsh |-> RatioShift, ttl0 |-> 0]
  /\ now = 0
  /\ st = InitState(0)

S == [lst |-> lst, endIt |-> endIt, lfu |-> lfu, index |-> index, eKey |-> eKey, eAge |-> eAge, used |-> used,
      ub |-> ub]
Set(s) ==
  /\ lst' = s.lst /\ endIt' = s.endIt /\ lfu' = s.lfu /\ index' = s.index /\ eKey' = s.eKey /\ eAge' = s.eAge
  /\ used' = s.used /\ ub' = s.ub

Pos(seq, x)  == CHOOSE i \in 1..Len(seq) : seq[i] = x
Without(seq, x) == SelectSeq(seq, LAMBDA y : y # x)
Splice(seq, pos, it) ==
  IF pos = it THEN seq
  ELSE LET w == Without(seq, it) IN
       IF pos = EndIt THEN Append(w, it)
       ELSE LET p == Pos(w, pos) IN SubSeq(w, 1, p - 1) \o <<it>> \o SubSeq(w, p, Len(w))
NextIt(seq, it) == LET p == Pos(seq, it) IN IF p = Len(seq) THEN EndIt ELSE seq[p + 1]
PrevIt(seq, it) == IF it = EndIt THEN seq[Len(seq)] ELSE IF Pos(seq, it) = 1 THEN EndIt ELSE seq[Pos(seq, it) - 1]
InUseCount(s) == IF s.endIt = EndIt THEN Cap ELSE Pos(s.lst, s.endIt) - 1
InUseSet(s)   == {s.lst[i] : i \in 1..InUseCount(s)}

\* multimap helpers
CntOf(s, i)   == LET p == CHOOSE q \in 1..Len(s.lfu) : s.lfu[q][2] = i IN s.lfu[p][1]
InLfu(s, i)   == \E q \in 1..Len(s.lfu) : s.lfu[q][2] = i
LfuErase(m, i) == SelectSeq(m, LAMBDA e : e[2] # i)
LfuEmplace(m, c, i) ==      \* upper bound: behind every entry with count <= c
  LET n == Cardinality({q \in 1..Len(m) : m[q][1] <= c}) IN
  SubSeq(m, 1, n) \o << <<c, i>> >> \o SubSeq(m, n + 1, Len(m))

DoAccess(s, i, t) ==
  LET c  == CntOf(s, i)
      m2 == LfuEmplace(LfuErase(s.lfu, i), c + 1, i)
      last == PrevIt(s.lst, s.endIt)
      lst2 == IF ~Aging \/ i = last THEN s.lst
              ELSE Splice(s.lst, IF Pinned THEN last ELSE s.endIt, i)
  IN [s EXCEPT !.lfu = m2, !.lst = lst2, !.eAge = IF Aging THEN [s.eAge EXCEPT ![i] = t] ELSE s.eAge,
               !.ub = s.ub \/ ~InLfu(s, i)]

DoErase(s, i) ==
  LET stale == i \notin InUseSet(s) \/ s.eKey[i] = 0 \/ s.index[s.eKey[i]] # i \/ ~InLfu(s, i)
      lst2  == IF i # PrevIt(s.lst, s.endIt) THEN Splice(s.lst, s.endIt, i) ELSE s.lst
      k     == s.eKey[i]
  IN [s EXCEPT !.lst = lst2, !.endIt = PrevIt(lst2, s.endIt), !.lfu = LfuErase(s.lfu, i),
               !.index = IF k # 0 /\ s.index[k] = i THEN [s.index EXCEPT ![k] = NoSlot] ELSE s.index,
               !.used = s.used - 1, !.ub = s.ub \/ stale]

\* do_dynamic_age: scan from the front of the age list while the front element is old enough
RECURSIVE AgeLoop(_, _, _, _)
AgeLoop(s, t, daLast, aged) ==
  LET front == s.lst[1] IN
  IF front # s.endIt /\ s.eAge[front] + AgeTick < t
  THEN LET lst2 == IF front # daLast THEN Splice(s.lst, daLast, front) ELSE s.lst
           c    == CntOf(s, front)
           c2   == (c * RatioNum) \div Pow2(RatioShift)
           s2   == [s EXCEPT !.lst = lst2, !.eAge = [s.eAge EXCEPT ![front] = t],
                             !.lfu = LfuEmplace(LfuErase(s.lfu, front), c2, front)]
       IN AgeLoop(s2, t, front, aged + 1)
  ELSE [s |-> s, aged |-> aged]

DoPrune(s, t) ==
  IF s.used = 0 THEN s
  ELSE LET s1 == IF Aging THEN AgeLoop(s, t, s.endIt, 0).s ELSE s IN DoErase(s1, s1.lfu[1][2])

DoInsert(s0, t, k) ==
  LET s == IF s0.used >= Cap THEN DoPrune(s0, t) ELSE s0 IN
  IF s.endIt = EndIt THEN [s EXCEPT !.ub = TRUE]
  ELSE LET i == s.endIt
           clash == \E k2 \in Keys : k2 # k /\ s.index[k2] = i IN
       [s EXCEPT !.index = [s.index EXCEPT ![k] = i], !.eKey = [s.eKey EXCEPT ![i] = k],
                 !.lfu = LfuEmplace(s.lfu, 1, i), !.eAge = [s.eAge EXCEPT ![i] = t],
                 !.endIt = NextIt(s.lst, i), !.used = s.used + 1, !.ub = s.ub \/ clash]

Insert(k, a) ==
  /\ lastOp' = [op |-> "ins", k |-> k, a |-> a]
  /\ IF index[k] # NoSlot
     THEN IF UpdAllowed(a) THEN Set(DoAccess(S, index[k], now)) ELSE Set(S)
     ELSE IF InsAllowed(a) THEN Set(DoInsert(S, now, k)) ELSE Set(S)
  /\ UNCHANGED <<now, ageOk>>

Erase(k) ==
  /\ lastOp' = [op |-> "era", k |-> k]
  /\ IF index[k] # NoSlot THEN Set(DoErase(S, index[k])) ELSE Set(S)
  /\ UNCHANGED <<now, ageOk>>

Find(k, peek) ==
  /\ lastOp' = [op |-> "find", k |-> k, p |-> peek]
  /\ IF index[k] # NoSlot /\ ~peek THEN Set(DoAccess(S, index[k], now)) ELSE Set(S)
  /\ UNCHANGED <<now, ageOk>>

Age ==
  /\ Aging
  /\ lastOp' = [op |-> "age"]
  /\ LET idle == {i \in InUseSet(S) : eAge[i] + AgeTick < now}
         r    == AgeLoop(S, now, endIt, 0) IN
     /\ Set(r.s)
     /\ ageOk' = (/\ r.aged = Cardinality(idle)
                  /\ \A i \in InUseSet(S) :
                        IF i \in idle
                        THEN r.s.eAge[i] = now /\ CntOf(r.s, i) = (CntOf(S, i) * RatioNum) \div Pow2(RatioShift)
                        ELSE r.s.eAge[i] = eAge[i] /\ CntOf(r.s, i) = CntOf(S, i))
  /\ UNCHANGED now

Tick(d) ==
  /\ Aging
  /\ lastOp' = [op |-> "tick", d |-> d]
  /\ now' = now + d
  /\ Set(S)
  /\ UNCHANGED ageOk

Next ==
  /\ ~ub
  /\ \/ \E k \in Keys, a \in {1, 2, 3} : Insert(k, a)
     \/ \E k \in Keys : Erase(k)
     \/ \E k \in Keys, p \in BOOLEAN : Find(k, p)
     \/ Age
     \/ \E d \in TickSteps : Tick(d)
  /\ UNCHANGED <<cfg, st>>

Spec == Init /\ [][Next]_fvars

CntBound == \A q \in 1..Len(lfu) : lfu[q][1] <= MaxCnt

View == <<lst, endIt, lfu, index, eKey, used, ub, ageOk,
          [i \in Slots |-> IF i \in InUseSet(S) /\ Aging THEN Min2(now - eAge[i], AgeTick + 1) ELSE 0]>>

NoUB == ~ub
ListIsPermutation == {lst[i] : i \in 1..Len(lst)} = Slots /\ Len(lst) = Cap
PartitionMatchesCount == InUseCount(S) = used /\ used <= Cap
BackPointersInverse ==
  /\ \A k \in Keys : index[k] # NoSlot => (index[k] \in InUseSet(S) /\ eKey[index[k]] = k)
  /\ \A i \in InUseSet(S) : eKey[i] # 0 /\ index[eKey[i]] = i
LfuMatches == {lfu[q][2] : q \in 1..Len(lfu)} = InUseSet(S) /\ Len(lfu) = used
LfuSorted == \A p, q \in 1..Len(lfu) : p < q => lfu[p][1] <= lfu[q][1]
\* the mechanism C14 relies on: the in-use part of the age list is ordered by timestamp
AgeListSorted == Aging => \A p, q \in 1..InUseCount(S) : p < q => eAge[lst[p]] <= eAge[lst[q]]
AgingExact == ageOk
=============================================================================
