---- MODULE FifoImpl_TTrace_1791023208 ----
EXTENDS FifoImpl, Sequences, TLCExt, Toolbox, Naturals, TLC

_expression ==
    LET FifoImpl_TEExpression == INSTANCE FifoImpl_TEExpression
    IN FifoImpl_TEExpression!expression
----

_trace ==
    LET FifoImpl_TETrace == INSTANCE FifoImpl_TETrace
    IN FifoImpl_TETrace!trace
----

_inv ==
    ~(
        TLCGet("level") = Len(_TETrace)
        /\
        nVal = (<<1, 1, 0>>)
        /\
        st = ([ttl |-> 0, store |-> <<0, 0, 0, 0>>, size |-> 0, cnt |-> <<0, 0, 0, 0>>, rec |-> <<>>, queue |-> <<>>, stamp |-> <<0, 0, 0, 0>>, dl |-> <<0, 0, 0, 0>>, unr |-> {}])
        /\
        nKey = (<<1, 0, 0>>)
        /\
        cfg = ([kind |-> "fifo", cap |-> 3, tick |-> 1, rnum |-> 1, rsh |-> 0, ttl0 |-> 0])
        /\
        now = (0)
        /\
        evictedWhileFree = (FALSE)
        /\
        index = (<<1, 0, 0, 0>>)
        /\
        used = (1)
        /\
        lst = (<<3, 1, 2>>)
        /\
        lastOp = ([k |-> 3, op |-> "era"])
    )
----

_init ==
    /\ lst = _TETrace[1].lst
    /\ lastOp = _TETrace[1].lastOp
    /\ index = _TETrace[1].index
    /\ cfg = _TETrace[1].cfg
    /\ nVal = _TETrace[1].nVal
    /\ now = _TETrace[1].now
    /\ used = _TETrace[1].used
    /\ nKey = _TETrace[1].nKey
    /\ st = _TETrace[1].st
    /\ evictedWhileFree = _TETrace[1].evictedWhileFree
----

_next ==
    /\ \E i,j \in DOMAIN _TETrace:
        /\ \/ /\ j = i + 1
              /\ i = TLCGet("level")
        /\ lst  = _TETrace[i].lst
        /\ lst' = _TETrace[j].lst
        /\ lastOp  = _TETrace[i].lastOp
        /\ lastOp' = _TETrace[j].lastOp
        /\ index  = _TETrace[i].index
        /\ index' = _TETrace[j].index
        /\ cfg  = _TETrace[i].cfg
        /\ cfg' = _TETrace[j].cfg
        /\ nVal  = _TETrace[i].nVal
        /\ nVal' = _TETrace[j].nVal
        /\ now  = _TETrace[i].now
        /\ now' = _TETrace[j].now
        /\ used  = _TETrace[i].used
        /\ used' = _TETrace[j].used
        /\ nKey  = _TETrace[i].nKey
        /\ nKey' = _TETrace[j].nKey
        /\ st  = _TETrace[i].st
        /\ st' = _TETrace[j].st
        /\ evictedWhileFree  = _TETrace[i].evictedWhileFree
        /\ evictedWhileFree' = _TETrace[j].evictedWhileFree

\* Uncomment the ASSUME below to write the states of the error trace
\* to the given file in Json format. Note that you can pass any tuple
\* to `JsonSerialize`. For example, a sub-sequence of _TETrace.
    \* ASSUME
    \*     LET J == INSTANCE Json
    \*         IN J!JsonSerialize("FifoImpl_TTrace_1791023208.json", _TETrace)

=============================================================================

 Note that you can extract this module `FifoImpl_TEExpression`
  to a dedicated file to reuse `expression` (the module in the 
  dedicated `FifoImpl_TEExpression.tla` file takes precedence 
  over the module `FifoImpl_TEExpression` below).

---- MODULE FifoImpl_TEExpression ----
EXTENDS FifoImpl, Sequences, TLCExt, Toolbox, Naturals, TLC

expression == 
    [
        \* To hide variables of the `FifoImpl` spec from the error trace,
        \* remove the variables below.  The trace will be written in the order
        \* of the fields of this record.
        lst |-> lst
        ,lastOp |-> lastOp
        ,index |-> index
        ,cfg |-> cfg
        ,nVal |-> nVal
        ,now |-> now
        ,used |-> used
        ,nKey |-> nKey
        ,st |-> st
        ,evictedWhileFree |-> evictedWhileFree
        
        \* Put additional constant-, state-, and action-level expressions here:
        \* ,_stateNumber |-> _TEPosition
        \* ,_lstUnchanged |-> lst = lst'
        
        \* Format the `lst` variable as Json value.
        \* ,_lstJson |->
        \*     LET J == INSTANCE Json
        \*     IN J!ToJson(lst)
        
        \* Lastly, you may build expressions over arbitrary sets of states by
        \* leveraging the _TETrace operator.  For example, this is how to
        \* count the number of times a spec variable changed up to the current
        \* state in the trace.
        \* ,_lstModCount |->
        \*     LET F[s \in DOMAIN _TETrace] ==
        \*         IF s = 1 THEN 0
        \*         ELSE IF _TETrace[s].lst # _TETrace[s-1].lst
        \*             THEN 1 + F[s-1] ELSE F[s-1]
        \*     IN F[_TEPosition - 1]
    ]

=============================================================================



Parsing and semantic processing can take forever if the trace below is long.
 In this case, it is advised to uncomment the module below to deserialize the
 trace from a generated binary file.

\*
\*---- MODULE FifoImpl_TETrace ----
\*EXTENDS FifoImpl, IOUtils, TLC
\*
\*trace == IODeserialize("FifoImpl_TTrace_1791023208.bin", TRUE)
\*
\*=============================================================================
\*

---- MODULE FifoImpl_TETrace ----
EXTENDS FifoImpl, TLC

trace == 
    <<
    ([nVal |-> <<0, 0, 0>>,st |-> [ttl |-> 0, store |-> <<0, 0, 0, 0>>, size |-> 0, cnt |-> <<0, 0, 0, 0>>, rec |-> <<>>, queue |-> <<>>, stamp |-> <<0, 0, 0, 0>>, dl |-> <<0, 0, 0, 0>>, unr |-> {}],nKey |-> <<0, 0, 0>>,cfg |-> [kind |-> "fifo", cap |-> 3, tick |-> 1, rnum |-> 1, rsh |-> 0, ttl0 |-> 0],now |-> 0,evictedWhileFree |-> FALSE,index |-> <<0, 0, 0, 0>>,used |-> 0,lst |-> <<1, 2, 3>>,lastOp |-> [op |-> "init"]]),
    ([nVal |-> <<1, 0, 0>>,st |-> [ttl |-> 0, store |-> <<0, 0, 0, 0>>, size |-> 0, cnt |-> <<0, 0, 0, 0>>, rec |-> <<>>, queue |-> <<>>, stamp |-> <<0, 0, 0, 0>>, dl |-> <<0, 0, 0, 0>>, unr |-> {}],nKey |-> <<1, 0, 0>>,cfg |-> [kind |-> "fifo", cap |-> 3, tick |-> 1, rnum |-> 1, rsh |-> 0, ttl0 |-> 0],now |-> 0,evictedWhileFree |-> FALSE,index |-> <<1, 0, 0, 0>>,used |-> 1,lst |-> <<2, 3, 1>>,lastOp |-> [k |-> 1, op |-> "ins", a |-> 1]]),
    ([nVal |-> <<1, 1, 0>>,st |-> [ttl |-> 0, store |-> <<0, 0, 0, 0>>, size |-> 0, cnt |-> <<0, 0, 0, 0>>, rec |-> <<>>, queue |-> <<>>, stamp |-> <<0, 0, 0, 0>>, dl |-> <<0, 0, 0, 0>>, unr |-> {}],nKey |-> <<1, 3, 0>>,cfg |-> [kind |-> "fifo", cap |-> 3, tick |-> 1, rnum |-> 1, rsh |-> 0, ttl0 |-> 0],now |-> 0,evictedWhileFree |-> FALSE,index |-> <<1, 0, 2, 0>>,used |-> 2,lst |-> <<3, 1, 2>>,lastOp |-> [k |-> 3, op |-> "ins", a |-> 1]]),
    ([nVal |-> <<1, 1, 0>>,st |-> [ttl |-> 0, store |-> <<0, 0, 0, 0>>, size |-> 0, cnt |-> <<0, 0, 0, 0>>, rec |-> <<>>, queue |-> <<>>, stamp |-> <<0, 0, 0, 0>>, dl |-> <<0, 0, 0, 0>>, unr |-> {}],nKey |-> <<1, 0, 0>>,cfg |-> [kind |-> "fifo", cap |-> 3, tick |-> 1, rnum |-> 1, rsh |-> 0, ttl0 |-> 0],now |-> 0,evictedWhileFree |-> FALSE,index |-> <<1, 0, 0, 0>>,used |-> 1,lst |-> <<3, 1, 2>>,lastOp |-> [k |-> 3, op |-> "era"]])
    >>
----


=============================================================================

---- CONFIG FifoImpl_TTrace_1791023208 ----
CONSTANTS
    Keys = { 1 , 2 , 3 , 4 }
    Strict = { }
    Cap = 3
    Vals = { 1 }
    EraseKeepsPlace = TRUE

INVARIANT
    _inv

CHECK_DEADLOCK
    \* CHECK_DEADLOCK off because of PROPERTY or INVARIANT above.
    FALSE

INIT
    _init

NEXT
    _next

CONSTANT
    _TETrace <- _trace

ALIAS
    _expression
=============================================================================
\* Generated on Sat Oct 03 10:26:49 UTC 2026