SPECIFICATION Spec
CONSTANTS
  Keys = {1,2,3}
  Strict = {}
  Aging = TRUE
  Cap = 3
  AgeTick = 2
  RatioNum = 1
  RatioShift = 1
  TickSteps = {1,3}
  MaxCnt = 3
  Pinned = FALSE
VIEW View
CONSTRAINT CntBound
INVARIANTS NoUB ListIsPermutation PartitionMatchesCount BackPointersInverse LfuMatches LfuSorted AgeListSorted AgingExact
CHECK_DEADLOCK FALSE
