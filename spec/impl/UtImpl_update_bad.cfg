SPECIFICATION Spec
CONSTANTS
  Keys = {1,2,3}
  Strict = {}
  Ttl = 3
  Vals = {1,2}
  TickSteps = {1,2}
  UpdateKeepsPlace = TRUE
VIEW View
INVARIANTS OneToOne TtlSorted NeverServesExpired
CHECK_DEADLOCK FALSE
