------------------------------ MODULE ListImpl ------------------------------
(***************************************************************************)
(* Implementation-shaped model of the list-partition designs:              *)
(*   lru_cache, mru_cache   (m_lru_list / m_mru_list of slot ids with the  *)
(*                           partition iterator m_lru_end / m_mru_end)     *)
(*   utlru_cache            the same plus the ttl list of slot ids, the    *)
(*                           configured ttl, update_ttl and clear()        *)
(* Nodes of the std::list are identified with the slot id they carry (the  *)
(* pairing is permanent); a list iterator is therefore a slot id, and the  *)
(* past-the-end iterator is EndIt.  One action per public call, composed   *)
(* from the do_* helpers as the code composes them.                        *)
(*                                                                         *)
(* Variant switches (each reproduces a class of slip; the cfg files named  *)
(* *_pinned / *_bad must yield a counterexample):                          *)
(*   TtlWriteOrder  utlru files a written node at the tail of the ttl list *)
(*                  (pinned tree, D3) instead of its sorted position       *)
(*   ClearKeepsTtl  clear() forgets m_ttl_list.clear()                     *)
(*   EraseToListEnd do_erase splices the freed node to list.end() instead  *)
(*                  of the partition iterator                              *)
(*   UpdateFilesOld tlru do_update re-files the ttl node under the OLD     *)
(*                  expire time (the new one is assigned afterwards)       *)
(* For tlru the ttl structure is a std::multimap keyed by expire time: it  *)
(* is modelled by the same sequence, always filed at the sorted position   *)
(* (behind equal keys), and insert takes the ttl as an argument.           *)
(***************************************************************************)
EXTENDS Cappuccino

CONSTANTS Kind,            \* "lru" | "mru" | "utlru" | "tlru"
          Cap, Vals, Ttls, TickSteps,
          TtlWriteOrder, ClearKeepsTtl, EraseToListEnd, UpdateFilesOld

VARIABLES lst,       \* the lru/mru list: sequence of slot ids (a permutation of Slots)
          endIt,     \* the partition iterator: a slot id, or EndIt
          ttlList,   \* utlru: sequence of slot ids
          ttl,       \* utlru: configured ttl
          index,     \* key -> slot or NoSlot
          eKey,      \* slot -> key its m_keyed_position refers to (0: none)
          eVal, eExp,\* slot -> value, expire time
          eInTtl,    \* slot -> TRUE iff its m_ttl_position refers to a node that is in ttlList
          used,      \* m_used_size
          ub,        \* TRUE once a stale iterator would have been used
          lastOp

lvars == <<lst, endIt, ttlList, ttl, index, eKey, eVal, eExp, eInTtl, used, ub, lastOp, cfg, now, st>>

Slots  == 1..Cap
EndIt  == 0
NoSlot == 0
IsTtl  == Kind \in {"utlru", "tlru"}
IsUt   == Kind = "utlru"

Init ==
  /\ lst = [i \in 1..Cap |-> i]
  /\ endIt = 1
  /\ ttlList = <<>>
  /\ ttl \in (IF IsUt THEN Ttls ELSE {0})
  /\ index = [k \in Keys |-> NoSlot]
  /\ eKey = [i \in Slots |-> 0] /\ eVal = [i \in Slots |-> 0] /\ eExp = [i \in Slots |-> 0]
  /\ eInTtl = [i \in Slots |-> FALSE]
  /\ used = 0
  /\ ub = FALSE
  /\ lastOp = [op |-> "init"]
  /\ cfg = [kind |-> Kind, cap |-> Cap, tick |-> 1, rnum |-> 1, rsh |-> 0, ttl0 |-> ttl]
  /\ now = 0
  /\ st = InitState(ttl)

S == [lst |-> lst, endIt |-> endIt, ttlList |-> ttlList, index |-> index, eKey |-> eKey, eVal |-> eVal,
      eExp |-> eExp, eInTtl |-> eInTtl, used |-> used, ub |-> ub]
Set(s) ==
  /\ lst' = s.lst /\ endIt' = s.endIt /\ ttlList' = s.ttlList /\ index' = s.index /\ eKey' = s.eKey
  /\ eVal' = s.eVal /\ eExp' = s.eExp /\ eInTtl' = s.eInTtl /\ used' = s.used /\ ub' = s.ub

\* list helpers ----------------------------------------------------------------
Pos(seq, x)  == CHOOSE i \in 1..Len(seq) : seq[i] = x
Has(seq, x)  == \E i \in 1..Len(seq) : seq[i] = x
Without(seq, x) == SelectSeq(seq, LAMBDA y : y # x)
\* splice(pos, list, it): move node `it` in front of `pos` (pos = EndIt: to the back)
Splice(seq, pos, it) ==
  IF pos = it THEN seq
  ELSE LET w == Without(seq, it) IN
       IF pos = EndIt THEN Append(w, it)
       ELSE LET p == Pos(w, pos) IN SubSeq(w, 1, p - 1) \o <<it>> \o SubSeq(w, p, Len(w))
NextIt(seq, it) == LET p == Pos(seq, it) IN IF p = Len(seq) THEN EndIt ELSE seq[p + 1]
PrevIt(seq, it) == IF it = EndIt THEN seq[Len(seq)] ELSE IF Pos(seq, it) = 1 THEN EndIt ELSE seq[Pos(seq, it) - 1]
\* number of nodes in front of the partition iterator = in-use nodes
InUseCount(s) == IF s.endIt = EndIt THEN Cap ELSE Pos(s.lst, s.endIt) - 1
InUseSet(s)   == {s.lst[i] : i \in 1..InUseCount(s)}

\* do_* helpers ------------------------------------------------------------------
DoAccess(s, i) ==
  IF Kind = "mru" THEN [s EXCEPT !.lst = Splice(s.lst, s.endIt, i)]      \* most recent = just before m_mru_end
  ELSE [s EXCEPT !.lst = Splice(s.lst, s.lst[1], i)]                     \* most recent = front

\* utlru: file the node (currently the tail) at its sorted position, or leave it (pinned rule)
TtlFileBy(s, i, key) ==
  IF TtlWriteOrder /\ IsUt THEN s
  ELSE LET w == Without(s.ttlList, i)
           RECURSIVE Walk(_)
           Walk(p) == IF p >= 1 /\ s.eExp[w[p]] > key THEN Walk(p - 1) ELSE p
           at == Walk(Len(w))
       IN [s EXCEPT !.ttlList = SubSeq(w, 1, at) \o <<i>> \o SubSeq(w, at + 1, Len(w))]
TtlFile(s, i) == TtlFileBy(s, i, s.eExp[i])

DoErase(s, i) ==
  LET stale == i \notin InUseSet(s) \/ s.eKey[i] = 0 \/ s.index[s.eKey[i]] # i
               \/ (IsTtl /\ ~(s.eInTtl[i] /\ Has(s.ttlList, i)))
      lst2  == IF i # PrevIt(s.lst, s.endIt)
               THEN Splice(s.lst, IF EraseToListEnd THEN EndIt ELSE s.endIt, i) ELSE s.lst
      k     == s.eKey[i]
  IN [s EXCEPT !.lst = lst2,
               !.endIt = PrevIt(lst2, s.endIt),            \* --m_lru_end
               !.ttlList = IF IsTtl THEN Without(s.ttlList, i) ELSE s.ttlList,
               !.eInTtl = [s.eInTtl EXCEPT ![i] = FALSE],
               !.index = IF k # 0 /\ s.index[k] = i THEN [s.index EXCEPT ![k] = NoSlot] ELSE s.index,
               !.used = s.used - 1,
               !.ub = s.ub \/ stale]

DoPrune(s, t) ==
  IF s.used = 0 THEN s
  ELSE IF IsTtl /\ (Len(s.ttlList) = 0)
       THEN [s EXCEPT !.ub = TRUE]                          \* *m_ttl_list.begin() on an empty list
       ELSE IF IsTtl /\ t >= s.eExp[s.ttlList[1]]
            THEN DoErase(s, s.ttlList[1])
            ELSE DoErase(s, s.lst[Len(s.lst)])              \* m_lru_list.back()

DoInsert(s0, t, k, v, exp) ==
  LET s == IF s0.used >= Cap THEN DoPrune(s0, t) ELSE s0 IN
  IF s.endIt = EndIt THEN [s EXCEPT !.ub = TRUE]            \* *m_lru_end on end()
  ELSE LET i == s.endIt
           clash == \E k2 \in Keys : k2 # k /\ s.index[k2] = i
           s1 == [s EXCEPT !.index = [s.index EXCEPT ![k] = i],
                           !.eKey = [s.eKey EXCEPT ![i] = k], !.eVal = [s.eVal EXCEPT ![i] = v],
                           !.eExp = [s.eExp EXCEPT ![i] = exp],
                           !.ttlList = IF IsTtl THEN Append(s.ttlList, i) ELSE s.ttlList,
                           !.eInTtl = [s.eInTtl EXCEPT ![i] = IsTtl],
                           !.endIt = NextIt(s.lst, i),
                           !.used = s.used + 1,
                           !.ub = s.ub \/ clash]
           s2 == IF IsTtl THEN TtlFile(s1, i) ELSE s1
       IN IF Kind = "mru" THEN s2 ELSE DoAccess(s2, i)

DoUpdate(s, i, v, exp) ==
  LET s1 == [s EXCEPT !.eVal = [s.eVal EXCEPT ![i] = v], !.eExp = [s.eExp EXCEPT ![i] = exp],
                      !.ttlList = IF IsTtl THEN Append(Without(s.ttlList, i), i) ELSE s.ttlList,
                      !.ub = s.ub \/ (IsTtl /\ ~Has(s.ttlList, i))]
      s2 == IF IsTtl THEN (IF UpdateFilesOld THEN TtlFileBy(s1, i, s.eExp[i]) ELSE TtlFile(s1, i)) ELSE s1
  IN DoAccess(s2, i)

\* public calls ------------------------------------------------------------------
Insert(k, v, a, d) ==
  /\ lastOp' = [op |-> "ins", k |-> k, v |-> v, a |-> a]
  /\ LET exp == now + (IF Kind = "tlru" THEN d ELSE ttl) IN
     IF index[k] # NoSlot
     THEN IF UpdAllowed(a) THEN Set(DoUpdate(S, index[k], v, exp))
          ELSE IF IsTtl /\ InsAllowed(a) /\ now >= eExp[index[k]] THEN Set(DoUpdate(S, index[k], v, exp))
          ELSE Set(S)
     ELSE IF InsAllowed(a) THEN Set(DoInsert(S, now, k, v, exp)) ELSE Set(S)
  /\ UNCHANGED <<ttl, now>>

Erase(k) ==
  /\ lastOp' = [op |-> "era", k |-> k]
  /\ IF index[k] # NoSlot THEN Set(DoErase(S, index[k])) ELSE Set(S)
  /\ UNCHANGED <<ttl, now>>

Find(k, peek) ==
  /\ lastOp' = [op |-> "find", k |-> k, p |-> peek]
  /\ IF index[k] = NoSlot THEN Set(S)
     ELSE IF IsTtl /\ now >= eExp[index[k]] THEN Set(DoErase(S, index[k]))
     ELSE IF peek THEN Set(S) ELSE Set(DoAccess(S, index[k]))
  /\ UNCHANGED <<ttl, now>>

RECURSIVE CleanLoop(_, _)
CleanLoop(s, t) ==
  IF s.used > 0 /\ Len(s.ttlList) = 0 THEN [s EXCEPT !.ub = TRUE]
  ELSE IF s.used > 0 /\ t >= s.eExp[s.ttlList[1]] THEN CleanLoop(DoErase(s, s.ttlList[1]), t) ELSE s

Clean ==
  /\ IsTtl
  /\ lastOp' = [op |-> "clean"]
  /\ Set(CleanLoop(S, now))
  /\ UNCHANGED <<ttl, now>>

UpdateTtl(d) ==
  /\ IsUt
  /\ lastOp' = [op |-> "uttl", d |-> d]
  /\ ttl' = d
  /\ Set(S)
  /\ UNCHANGED now

Clear ==
  /\ IsUt
  /\ lastOp' = [op |-> "clear"]
  /\ IF used > 0
     THEN Set([S EXCEPT !.lst = [i \in 1..Cap |-> i],      \* std::iota over the list
                        !.endIt = 1,
                        !.index = [k \in Keys |-> NoSlot],
                        !.ttlList = IF ClearKeepsTtl THEN ttlList ELSE <<>>,
                        !.eInTtl = IF ClearKeepsTtl THEN eInTtl ELSE [i \in Slots |-> FALSE],
                        !.used = 0])
     ELSE Set(S)
  /\ UNCHANGED <<ttl, now>>

Tick(d) ==
  /\ IsTtl
  /\ lastOp' = [op |-> "tick", d |-> d]
  /\ now' = now + d
  /\ Set(S)
  /\ UNCHANGED ttl

Next ==
  /\ ~ub
  /\ \/ \E k \in Keys, v \in Vals, a \in {1, 2, 3}, d \in (IF Kind = "tlru" THEN Ttls ELSE {0}) : Insert(k, v, a, d)
     \/ \E k \in Keys : Erase(k)
     \/ \E k \in Keys, p \in BOOLEAN : Find(k, p)
     \/ Clean \/ Clear
     \/ \E d \in Ttls : UpdateTtl(d)
     \/ \E d \in TickSteps : Tick(d)
  /\ UNCHANGED <<cfg, st>>

Spec == Init /\ [][Next]_lvars

\* VIEW: times relative to now
View == <<lst, endIt, ttlList, ttl, index, eKey, eVal, eInTtl, used, ub,
          [i \in Slots |-> IF i \in InUseSet(S) /\ IsTtl THEN Max2(eExp[i] - now, 0) ELSE 0]>>

\* --------------------------------------------------------------------------
\* structural invariants (C08 at the design level; anchors of C01/C02/C16/C17)
NoUB == ~ub
ListIsPermutation == {lst[i] : i \in 1..Len(lst)} = Slots /\ Len(lst) = Cap
PartitionMatchesCount == InUseCount(S) = used /\ used <= Cap
BackPointersInverse ==
  /\ \A k \in Keys : index[k] # NoSlot => (index[k] \in InUseSet(S) /\ eKey[index[k]] = k)
  /\ \A i \in InUseSet(S) : eKey[i] # 0 /\ index[eKey[i]] = i
IndexWithinCapacity == Cardinality({k \in Keys : index[k] # NoSlot}) = used      \* never more than Cap: no rehash
TtlListMatches == IsTtl => ({ttlList[i] : i \in 1..Len(ttlList)} = InUseSet(S) /\ Len(ttlList) = used)
\* the mechanism C16 / C17 rely on: the head of the ttl list has the minimal deadline
TtlHeadIsMinimal == (IsTtl /\ Len(ttlList) > 0) => \A i \in InUseSet(S) : eExp[ttlList[1]] <= eExp[i]
=============================================================================
