------------------------------ MODULE FifoImpl ------------------------------
(***************************************************************************)
(* Implementation-shaped model of fifo_cache: one std::list of `Cap` nodes *)
(* (value + optional iterator into the hash index).  Free nodes are kept   *)
(* at the FRONT of the list: do_insert always takes the head node, moves   *)
(* it to the tail, and - if the node still carries a key - erases that     *)
(* key first (that is the eviction); do_erase moves the node to the head   *)
(* and clears its key.  So the list is: free nodes, then keyed nodes in    *)
(* insertion order.                                                        *)
(* EraseKeepsPlace = TRUE: do_erase clears the key but leaves the node in  *)
(* place (a later insert then evicts although a free node exists): must be *)
(* refuted.                                                                *)
(***************************************************************************)
EXTENDS Cappuccino

CONSTANTS Cap, Vals, EraseKeepsPlace

VARIABLES lst,      \* sequence of node ids
          nKey,     \* node -> key (0: no keyed position)
          nVal,
          index,    \* key -> node or 0
          used, lastOp, evictedWhileFree

xvars == <<lst, nKey, nVal, index, used, lastOp, evictedWhileFree, cfg, now, st>>
Nodes == 1..Cap

Init ==
  /\ lst = [i \in 1..Cap |-> i]
  /\ nKey = [i \in Nodes |-> 0] /\ nVal = [i \in Nodes |-> 0]
  /\ index = [k \in Keys |-> 0]
  /\ used = 0 /\ lastOp = [op |-> "init"] /\ evictedWhileFree = FALSE
  /\ cfg = [kind |-> "fifo", cap |-> Cap, tick |-> 1, rnum |-> 1, rsh |-> 0, ttl0 |-> 0]
  /\ now = 0 /\ st = InitState(0)

Without(seq, x) == SelectSeq(seq, LAMBDA y : y # x)

Insert(k, v, a) ==
  /\ lastOp' = [op |-> "ins", k |-> k, a |-> a]
  /\ IF index[k] # 0
     THEN /\ nVal' = IF UpdAllowed(a) THEN [nVal EXCEPT ![index[k]] = v] ELSE nVal
          /\ UNCHANGED <<lst, nKey, index, used, evictedWhileFree>>
     ELSE IF ~InsAllowed(a) THEN UNCHANGED <<lst, nKey, nVal, index, used, evictedWhileFree>>
     ELSE LET h == lst[1]
              old == nKey[h] IN
          /\ lst' = Append(Without(lst, h), h)
          /\ index' = [x \in Keys |-> IF x = k THEN h ELSE IF old # 0 /\ x = old THEN 0 ELSE index[x]]
          /\ used' = IF old # 0 THEN used ELSE used + 1
          /\ nKey' = [nKey EXCEPT ![h] = k]
          /\ nVal' = [nVal EXCEPT ![h] = v]
          /\ evictedWhileFree' = (evictedWhileFree \/ (old # 0 /\ used < Cap))

Erase(k) ==
  /\ lastOp' = [op |-> "era", k |-> k]
  /\ IF index[k] = 0 THEN UNCHANGED <<lst, nKey, nVal, index, used, evictedWhileFree>>
     ELSE LET n == index[k] IN
          /\ lst' = IF EraseKeepsPlace THEN lst ELSE <<n>> \o Without(lst, n)
          /\ nKey' = [nKey EXCEPT ![n] = 0]
          /\ index' = [index EXCEPT ![k] = 0]
          /\ used' = used - 1
          /\ UNCHANGED <<nVal, evictedWhileFree>>

Next ==
  /\ \/ \E k \in Keys, v \in Vals, a \in {1, 2, 3} : Insert(k, v, a)
     \/ \E k \in Keys : Erase(k)
  /\ UNCHANGED <<cfg, now, st>>

Spec == Init /\ [][Next]_xvars

ListIsPermutation == {lst[i] : i \in 1..Len(lst)} = Nodes /\ Len(lst) = Cap
BackPointersInverse ==
  /\ \A k \in Keys : index[k] # 0 => nKey[index[k]] = k
  /\ \A n \in Nodes : nKey[n] # 0 => index[nKey[n]] = n
CountMatches == used = Cardinality({k \in Keys : index[k] # 0}) /\ used <= Cap
FreeNodesFirst == \A i, j \in 1..Cap : (i < j /\ nKey[lst[j]] = 0) => nKey[lst[i]] = 0
NeverEvictsWhileFree == ~evictedWhileFree
=============================================================================
