// Compiled once per container kind: -DVH_KIND=lru etc.
#include "adapters.hpp"
#define VH_CAT2(a, b) a##b
#define VH_CAT(a, b) VH_CAT2(a, b)
namespace vh
{
std::unique_ptr<ICache> VH_CAT(make_kind_, VH_KIND)(const Cfg& g)
{
    return make_kind_impl<Kind::VH_KIND>(g);
}
} // namespace vh
