// Uniform, type-erased access to the ten libcappuccino containers.  Everything goes through
// the public API only.  Keys/values cross this interface as small ints; the adapter converts
// them to the configured key/value flavour (int/int or std::string/HVal).
#pragma once
#include <cappuccino/cappuccino.hpp>

#include "vclock.hpp"

#include <atomic>
#include <chrono>
#include <cstdio>
#include <cstdlib>
#include <list>
#include <map>
#include <memory>
#include <optional>
#include <set>
#include <string>
#include <tuple>
#include <vector>

namespace vh
{
using ms = std::chrono::milliseconds;

// ---------------------------------------------------------------------------------------------
// Heap-owning, instance-counted value with a canary: double destruction, use after destruction
// and leaks are reported even where the sanitizers are silent (C08).
struct HVal
{
    static std::atomic<long>& live()
    {
        static std::atomic<long> l{0};
        return l;
    }
    static std::atomic<long>& faults()
    {
        static std::atomic<long> f{0};
        return f;
    }
    static constexpr unsigned kAlive = 0xA11CE5EDu;
    static constexpr unsigned kDead  = 0xDEADBEEFu;

    unsigned canary{kAlive};
    int*     p{nullptr};

    HVal() : p(new int(0)) { live()++; }
    explicit HVal(int id) : p(new int(id)) { live()++; }
    HVal(const HVal& o) : p(new int(o.get())) { live()++; }
    HVal(HVal&& o) noexcept : p(o.p)
    {
        o.check();
        o.p = nullptr;
        live()++;
    }
    HVal& operator=(const HVal& o)
    {
        check();
        if (this != &o)
        {
            int* n = new int(o.get());
            delete p;
            p = n;
        }
        return *this;
    }
    HVal& operator=(HVal&& o) noexcept
    {
        check();
        o.check();
        if (this != &o)
        {
            delete p;
            p   = o.p;
            o.p = nullptr;
        }
        return *this;
    }
    ~HVal()
    {
        if (canary != kAlive)
        {
            faults()++;
            std::fprintf(stderr, "HVAL-FAULT: destructor on a dead object\n");
        }
        canary = kDead;
        delete p;
        p = nullptr;
        live()--;
    }
    void check() const
    {
        if (canary != kAlive)
        {
            faults()++;
            std::fprintf(stderr, "HVAL-FAULT: use of a dead object\n");
        }
    }
    int get() const
    {
        check();
        return p ? *p : -1; // -1: moved-from
    }
    // not required by the library; provided so that a change which starts comparing values
    // still builds and is judged by what it does
    friend bool operator==(const HVal& a, const HVal& b) { return a.get() == b.get(); }
    friend bool operator!=(const HVal& a, const HVal& b) { return !(a == b); }
    friend bool operator<(const HVal& a, const HVal& b) { return a.get() < b.get(); }
};

template<typename K>
struct KeyConv;
template<>
struct KeyConv<int>
{
    static int to(int k) { return k; }
    static int from(int k) { return k; }
};
template<>
struct KeyConv<std::string>
{
    static std::string to(int k)
    {
        char buf[64];
        std::snprintf(buf, sizeof buf, "key-%08d-padding-beyond-the-sso-buffer", k);
        return buf;
    }
    static int from(const std::string& s) { return std::atoi(s.c_str() + 4); }
};
template<typename V>
struct ValConv;
template<>
struct ValConv<int>
{
    static int to(int v) { return v; }
    static int from(const int& v) { return v; }
};
template<>
struct ValConv<HVal>
{
    static HVal to(int v) { return HVal(v); }
    static int  from(const HVal& v) { return v.get(); }
};

// ---------------------------------------------------------------------------------------------
enum class Kind
{
    lru,
    mru,
    fifo,
    lfu,
    lfuda,
    rr,
    tlru,
    utlru,
    utmap,
    utset
};

inline const char* kind_name(Kind k)
{
    static const char* n[] = {"lru", "mru", "fifo", "lfu", "lfuda", "rr", "tlru", "utlru", "utmap", "utset"};
    return n[static_cast<int>(k)];
}
inline bool kind_from(const std::string& s, Kind& out)
{
    for (int i = 0; i < 10; ++i)
    {
        if (s == kind_name(static_cast<Kind>(i)))
        {
            out = static_cast<Kind>(i);
            return true;
        }
    }
    return false;
}

struct Cfg
{
    Kind   kind{Kind::lru};
    size_t cap{1};
    bool   ts{false};
    float  mlf{1.0f};
    int    ttl{0};  // uniform ttl (utlru, utmap, utset)
    int    tick{1}; // lfuda
    int    rnum{1}; // lfuda ratio = rnum / 2^rsh
    int    rsh{1};
    int    flavour{0}; // 0: int/int   1: std::string/HVal
    int    keys{8};
    long long us{250}; // microseconds per clock tick
};

struct KV
{
    int k;
    int v;
    int d;
};

// Range argument container variants.
//  0 std::vector   1 std::list   2 ordered associative (std::map / std::set; deduplicates, sorts)
//  3 iterator-pair overloads (fifo only; others fall back to 0)
struct ICache
{
    virtual ~ICache() = default;
    virtual bool                             insert(int k, int v, int a, int d)                        = 0;
    virtual size_t                           insert_range(std::vector<KV>& eff, int a, int variant)    = 0;
    virtual bool                             erase(int k)                                              = 0;
    virtual size_t                           erase_range(std::vector<int>& eff, int variant)           = 0;
    virtual int                              find(int k, bool peek)                                    = 0;
    virtual std::pair<int, long>             find_wc(int k, bool peek)                                 = 0;
    virtual std::vector<std::pair<int, int>> find_range(std::vector<int>& eff, bool peek, int variant) = 0;
    virtual std::vector<std::pair<int, int>> find_range_fill(std::vector<int>& eff, bool peek, int variant) = 0;
    virtual size_t                           clean()                                                   = 0;
    virtual size_t                           age()                                                     = 0;
    virtual void                             update_ttl(int d)                                         = 0;
    virtual void                             clear()                                                   = 0;
    virtual size_t                           size()                                                    = 0;
    virtual bool                             empty()                                                   = 0;
    virtual size_t                           capacity()                                                = 0;
};

template<Kind KD>
struct Caps
{
    static constexpr bool has_peek   = KD == Kind::lru || KD == Kind::mru || KD == Kind::tlru || KD == Kind::utlru;
    static constexpr bool bool_peek  = KD == Kind::lfu || KD == Kind::lfuda;
    static constexpr bool has_count  = KD == Kind::lfu || KD == Kind::lfuda;
    static constexpr bool has_clean  = KD == Kind::tlru || KD == Kind::utlru || KD == Kind::utmap || KD == Kind::utset;
    static constexpr bool has_age    = KD == Kind::lfuda;
    static constexpr bool has_uttl   = KD == Kind::utlru;
    static constexpr bool has_clear  = KD == Kind::utlru || KD == Kind::utmap;
    static constexpr bool has_cap    = !(KD == Kind::utmap || KD == Kind::utset);
    static constexpr bool is_set     = KD == Kind::utset;
    static constexpr bool entry_ttl  = KD == Kind::tlru;
};

template<Kind KD, typename K, typename V, cappuccino::thread_safe TS>
struct Sel;
#define VH_SEL(KIND, TYPE)                                                                                             \
    template<typename K, typename V, cappuccino::thread_safe TS>                                                       \
    struct Sel<Kind::KIND, K, V, TS>                                                                                   \
    {                                                                                                                  \
        using type = cappuccino::TYPE<K, V, TS>;                                                                       \
    };
VH_SEL(lru, lru_cache)
VH_SEL(mru, mru_cache)
VH_SEL(fifo, fifo_cache)
VH_SEL(lfu, lfu_cache)
VH_SEL(lfuda, lfuda_cache)
VH_SEL(rr, rr_cache)
VH_SEL(tlru, tlru_cache)
VH_SEL(utlru, utlru_cache)
VH_SEL(utmap, ut_map)
#undef VH_SEL
template<typename K, typename V, cappuccino::thread_safe TS>
struct Sel<Kind::utset, K, V, TS>
{
    using type = cappuccino::ut_set<K, TS>;
};

template<Kind KD, typename K, typename V, cappuccino::thread_safe TS>
class Adapter final : public ICache
{
    using C    = typename Sel<KD, K, V, TS>::type;
    using caps = Caps<KD>;
    using KC   = KeyConv<K>;
    using VC   = ValConv<V>;
    std::unique_ptr<C> c;

    static std::unique_ptr<C> make(const Cfg& g)
    {
        if constexpr (KD == Kind::lfuda)
        {
            float ratio = static_cast<float>(g.rnum) / static_cast<float>(1 << g.rsh);
            return std::make_unique<C>(g.cap, ttl_ms(g.tick), ratio, g.mlf);
        }
        else if constexpr (KD == Kind::utlru)
        {
            return std::make_unique<C>(ttl_ms(g.ttl), g.cap, g.mlf);
        }
        else if constexpr (KD == Kind::utmap || KD == Kind::utset)
        {
            return std::make_unique<C>(ttl_ms(g.ttl));
        }
        else
        {
            return std::make_unique<C>(g.cap, g.mlf);
        }
    }

    static cappuccino::allow al(int a) { return static_cast<cappuccino::allow>(a); }
    static cappuccino::peek  pk(bool p) { return p ? cappuccino::peek::yes : cappuccino::peek::no; }

    template<typename Opt>
    static int optval(const Opt& o)
    {
        if constexpr (caps::is_set)
        {
            return o ? 1 : 0;
        }
        else
        {
            return o.has_value() ? VC::from(*o) : 0;
        }
    }

public:
    explicit Adapter(const Cfg& g) : c(make(g)) {}

    C& raw() { return *c; }

    bool insert(int k, int v, int a, int d) override
    {
        (void)d;
        (void)v;
        if constexpr (caps::is_set)
        {
            return c->insert(KC::to(k), al(a));
        }
        else if constexpr (caps::entry_ttl)
        {
            return c->insert(ttl_ms(d), KC::to(k), VC::to(v), al(a));
        }
        else
        {
            return c->insert(KC::to(k), VC::to(v), al(a));
        }
    }

    size_t insert_range(std::vector<KV>& eff, int a, int variant) override
    {
        if constexpr (caps::is_set)
        {
            if (variant == 2)
            {
                std::set<K> s;
                for (auto& e : eff)
                    s.insert(KC::to(e.k));
                std::vector<KV> n;
                for (auto& k : s)
                    n.push_back(KV{KC::from(k), 1, 0});
                eff = n;
                return c->insert_range(s, al(a));
            }
            else if (variant == 1)
            {
                std::list<K> s;
                for (auto& e : eff)
                    s.push_back(KC::to(e.k));
                return c->insert_range(s, al(a));
            }
            std::vector<K> s;
            for (auto& e : eff)
                s.push_back(KC::to(e.k));
            return c->insert_range(s, al(a));
        }
        else if constexpr (caps::entry_ttl)
        {
            using T = std::tuple<ms, K, V>;
            if (variant == 1)
            {
                std::list<T> s;
                for (auto& e : eff)
                    s.emplace_back(ttl_ms(e.d), KC::to(e.k), VC::to(e.v));
                return c->insert_range(s, al(a));
            }
            std::vector<T> s;
            for (auto& e : eff)
                s.emplace_back(ttl_ms(e.d), KC::to(e.k), VC::to(e.v));
            return c->insert_range(s, al(a));
        }
        else
        {
            if (variant == 2)
            {
                std::map<K, V> s;
                for (auto& e : eff)
                    s.insert_or_assign(KC::to(e.k), VC::to(e.v));
                std::vector<KV> n;
                for (auto& [k, v] : s)
                    n.push_back(KV{KC::from(k), VC::from(v), 0});
                eff = n;
                return c->insert_range(s, al(a));
            }
            else if (variant == 1)
            {
                std::list<std::pair<K, V>> s;
                for (auto& e : eff)
                    s.emplace_back(KC::to(e.k), VC::to(e.v));
                return c->insert_range(s, al(a));
            }
            std::vector<std::pair<K, V>> s;
            for (auto& e : eff)
                s.emplace_back(KC::to(e.k), VC::to(e.v));
            if constexpr (KD == Kind::fifo)
            {
                if (variant == 3)
                {
                    return c->insert(s.begin(), s.end(), al(a));
                }
            }
            return c->insert_range(s, al(a));
        }
    }

    bool erase(int k) override { return c->erase(KC::to(k)); }

    size_t erase_range(std::vector<int>& eff, int variant) override
    {
        if (variant == 2)
        {
            std::set<K> s;
            for (int k : eff)
                s.insert(KC::to(k));
            eff.clear();
            for (auto& k : s)
                eff.push_back(KC::from(k));
            return c->erase_range(s);
        }
        else if (variant == 1)
        {
            std::list<K> s;
            for (int k : eff)
                s.push_back(KC::to(k));
            return c->erase_range(s);
        }
        std::vector<K> s;
        for (int k : eff)
            s.push_back(KC::to(k));
        if constexpr (KD == Kind::fifo)
        {
            if (variant == 3)
            {
                return c->erase(s.begin(), s.end());
            }
        }
        return c->erase_range(s);
    }

    int find(int k, bool peek) override
    {
        (void)peek;
        if constexpr (caps::has_peek)
        {
            return optval(c->find(KC::to(k), pk(peek)));
        }
        else if constexpr (caps::bool_peek)
        {
            return optval(c->find(KC::to(k), peek));
        }
        else
        {
            return optval(c->find(KC::to(k)));
        }
    }

    std::pair<int, long> find_wc(int k, bool peek) override
    {
        (void)k;
        (void)peek;
        if constexpr (caps::has_count)
        {
            auto r = c->find_with_use_count(KC::to(k), peek);
            if (r.has_value())
            {
                return {VC::from(r->first), static_cast<long>(r->second)};
            }
            return {0, 0};
        }
        else
        {
            return {0, 0};
        }
    }

    template<typename R>
    std::vector<std::pair<int, int>> conv(const R& r)
    {
        std::vector<std::pair<int, int>> out;
        for (auto& [k, o] : r)
            out.emplace_back(KC::from(k), optval(o));
        return out;
    }

    template<typename S>
    auto do_find_range(const S& s, bool peek)
    {
        (void)peek;
        if constexpr (caps::has_peek)
        {
            return c->find_range(s, pk(peek));
        }
        else if constexpr (caps::bool_peek)
        {
            return c->find_range(s, peek);
        }
        else
        {
            return c->find_range(s);
        }
    }

    std::vector<std::pair<int, int>> find_range(std::vector<int>& eff, bool peek, int variant) override
    {
        if (variant == 2)
        {
            std::set<K> s;
            for (int k : eff)
                s.insert(KC::to(k));
            eff.clear();
            for (auto& k : s)
                eff.push_back(KC::from(k));
            return conv(do_find_range(s, peek));
        }
        else if (variant == 1)
        {
            std::list<K> s;
            for (int k : eff)
                s.push_back(KC::to(k));
            return conv(do_find_range(s, peek));
        }
        std::vector<K> s;
        for (int k : eff)
            s.push_back(KC::to(k));
        if constexpr (KD == Kind::fifo)
        {
            if (variant == 3)
            {
                return conv(c->find(s.begin(), s.end(), s.size()));
            }
        }
        return conv(do_find_range(s, peek));
    }

    template<typename S>
    void do_find_fill(S& s, bool peek)
    {
        (void)peek;
        if constexpr (caps::has_peek)
        {
            c->find_range_fill(s, pk(peek));
        }
        else if constexpr (caps::bool_peek)
        {
            c->find_range_fill(s, peek);
        }
        else
        {
            c->find_range_fill(s);
        }
    }

    std::vector<std::pair<int, int>> find_range_fill(std::vector<int>& eff, bool peek, int variant) override
    {
        // The filled slot is pre-set to a bogus non-empty value so "fills every entry" is observable.
        using O = std::conditional_t<caps::is_set, bool, std::optional<V>>;
        auto bogus = []() -> O {
            if constexpr (caps::is_set)
            {
                return true;
            }
            else
            {
                return std::optional<V>{VC::to(999999)};
            }
        };
        if (variant == 2)
        {
            std::map<K, O> s;
            for (int k : eff)
                s.insert_or_assign(KC::to(k), bogus());
            eff.clear();
            for (auto& [k, o] : s)
                eff.push_back(KC::from(k));
            do_find_fill(s, peek);
            return conv(s);
        }
        else if (variant == 1)
        {
            std::list<std::pair<K, O>> s;
            for (int k : eff)
                s.emplace_back(KC::to(k), bogus());
            do_find_fill(s, peek);
            return conv(s);
        }
        std::vector<std::pair<K, O>> s;
        for (int k : eff)
            s.emplace_back(KC::to(k), bogus());
        if constexpr (KD == Kind::fifo)
        {
            if (variant == 3)
            {
                c->find_range_fill(s.begin(), s.end());
                return conv(s);
            }
        }
        do_find_fill(s, peek);
        return conv(s);
    }

    size_t clean() override
    {
        if constexpr (caps::has_clean)
        {
            return c->clean_expired_values();
        }
        else
        {
            return 0;
        }
    }
    size_t age() override
    {
        if constexpr (caps::has_age)
        {
            return c->dynamically_age();
        }
        else
        {
            return 0;
        }
    }
    void update_ttl(int d) override
    {
        (void)d;
        if constexpr (caps::has_uttl)
        {
            c->update_ttl(ttl_ms(d));
        }
    }
    void clear() override
    {
        if constexpr (caps::has_clear)
        {
            c->clear();
        }
    }
    size_t size() override { return c->size(); }
    bool   empty() override { return c->empty(); }
    size_t capacity() override
    {
        if constexpr (caps::has_cap)
        {
            return c->capacity();
        }
        else
        {
            return 0;
        }
    }
};

// Per-kind factories live in their own translation units (kind_tu.cpp compiled once per kind
// with -DVH_KIND=<kind>) so the 40 template instantiations compile in parallel.
#define VH_KINDS(X) X(lru) X(mru) X(fifo) X(lfu) X(lfuda) X(rr) X(tlru) X(utlru) X(utmap) X(utset)
#define VH_DECL(KIND) std::unique_ptr<ICache> make_kind_##KIND(const Cfg& g);
VH_KINDS(VH_DECL)
#undef VH_DECL

template<Kind KD>
std::unique_ptr<ICache> make_kind_impl(const Cfg& g)
{
    using cappuccino::thread_safe;
    if (g.flavour == 0)
    {
        if (g.ts)
            return std::make_unique<Adapter<KD, int, int, thread_safe::yes>>(g);
        return std::make_unique<Adapter<KD, int, int, thread_safe::no>>(g);
    }
    if (g.ts)
        return std::make_unique<Adapter<KD, std::string, HVal, thread_safe::yes>>(g);
    return std::make_unique<Adapter<KD, std::string, HVal, thread_safe::no>>(g);
}

inline std::unique_ptr<ICache> make_cache(const Cfg& g)
{
    switch (g.kind)
    {
#define VH_CASE(KIND)                                                                                                  \
    case Kind::KIND:                                                                                                   \
        return make_kind_##KIND(g);
        VH_KINDS(VH_CASE)
#undef VH_CASE
    }
    return nullptr;
}

struct KindCaps
{
    bool has_peek, has_count, has_clean, has_age, has_uttl, has_clear, has_cap, is_set, entry_ttl, ttl_cache, ut;
};
inline KindCaps caps_of(Kind k)
{
    KindCaps c{};
    c.has_peek  = k == Kind::lru || k == Kind::mru || k == Kind::tlru || k == Kind::utlru || k == Kind::lfu || k == Kind::lfuda;
    c.has_count = k == Kind::lfu || k == Kind::lfuda;
    c.has_clean = k == Kind::tlru || k == Kind::utlru || k == Kind::utmap || k == Kind::utset;
    c.has_age   = k == Kind::lfuda;
    c.has_uttl  = k == Kind::utlru;
    c.has_clear = k == Kind::utlru || k == Kind::utmap;
    c.has_cap   = !(k == Kind::utmap || k == Kind::utset);
    c.is_set    = k == Kind::utset;
    c.entry_ttl = k == Kind::tlru;
    c.ttl_cache = k == Kind::tlru || k == Kind::utlru;
    c.ut        = k == Kind::utmap || k == Kind::utset;
    return c;
}

} // namespace vh
