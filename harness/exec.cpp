// Script executor: runs a call script (inputs only) on the real containers under the virtual
// clock and logs one ndjson event per call with arguments, results and the safely observable
// projection of the state (DESIGN.md section 3.2).  Usage: exec <script|-> <trace|->
#define VERIF_DEFINE_CLOCK
#include "vclock.hpp"

#include "adapters.hpp"

#include <array>
#include <cstring>
#include <fstream>
#include <iostream>
#include <set>
#include <sstream>

using namespace vh;

namespace
{
FILE* g_out = stdout;
bool  g_quiet = false; // '~' prefix: execute the call, log it, take no projection

struct Obs
{
    size_t                        size{0};
    size_t                        size2{0};
    bool                          empty{true};
    size_t                        cap{0};
    std::vector<std::array<long, 3>> obs;
    std::vector<int>              skip;
};

struct Session
{
    Cfg                          cfg;
    KindCaps                     caps{};
    std::unique_ptr<ICache>      c;
    int                          cur_ttl{0};
    std::map<int, std::set<long long>> D; // possible deadlines of the latest write per key (ttl caches)
    long                         live_base{0};

    bool safe_to_probe(int k)
    {
        if (!caps.ttl_cache)
            return true;
        auto it = D.find(k);
        if (it == D.end() || it->second.empty())
            return true;
        return *it->second.begin() > g_now_ms.load();
    }

    Obs observe(bool is_tick, bool is_obs)
    {
        Obs o;
        // ut_map / ut_set: a probe is a lookup and purges like any call.  After a call there is
        // nothing left to purge (same instant), so size() is read first, immediately after the
        // call; on an "obs" line the probes are the call and size() is read after them.
        const bool probe_first = caps.ut && is_obs;
        if (!probe_first)
        {
            o.size  = c->size();
            o.empty = c->empty();
        }
        o.cap = c->capacity();
        for (int k = 1; k <= cfg.keys; ++k)
        {
            if (caps.ut && is_tick)
            {
                o.skip.push_back(k);
                continue;
            }
            if (!safe_to_probe(k))
            {
                o.skip.push_back(k);
                continue;
            }
            if (caps.has_count)
            {
                auto r = c->find_wc(k, true);
                if (r.first != 0)
                    o.obs.push_back(std::array<long, 3>{k, r.first, r.second});
                else
                    D[k].clear();
            }
            else
            {
                int v = c->find(k, true);
                if (v != 0)
                    o.obs.push_back(std::array<long, 3>{k, v, 0});
                else
                    D[k].clear();
            }
        }
        if (probe_first)
        {
            o.size  = c->size();
            o.empty = c->empty();
        }
        // size() once more after the projection's own lookups: what the next call will start from
        o.size2 = c->size();
        return o;
    }
};

std::string jl(const std::vector<KV>& kv)
{
    std::ostringstream s;
    s << "[";
    for (size_t i = 0; i < kv.size(); ++i)
        s << (i ? "," : "") << "[" << kv[i].k << "," << kv[i].v << "," << kv[i].d << "]";
    s << "]";
    return s.str();
}
std::string jl(const std::vector<std::pair<int, int>>& v)
{
    std::ostringstream s;
    s << "[";
    for (size_t i = 0; i < v.size(); ++i)
        s << (i ? "," : "") << "[" << v[i].first << "," << v[i].second << "]";
    s << "]";
    return s.str();
}

void emit(
    Session&                                 S,
    const char*                              op,
    int                                      k,
    int                                      v,
    int                                      a,
    int                                      d,
    int                                      p,
    int                                      var,
    const std::vector<KV>&                   kv,
    long                                     ret,
    long                                     rc,
    const std::vector<std::pair<int, int>>&  rl,
    bool                                     is_tick = false)
{
    Obs o;
    if (g_quiet)
    {
        for (int kk = 1; kk <= S.cfg.keys; ++kk)
            o.skip.push_back(kk);
    }
    else
    {
        o = S.observe(is_tick, std::strcmp(op, "obs") == 0);
    }
    const long qsize = g_quiet ? -1 : static_cast<long>(o.size);
    const long qsize2 = g_quiet ? -1 : static_cast<long>(o.size2);
    std::ostringstream s;
    s << "{\"e\":\"op\",\"op\":\"" << op << "\",\"k\":" << k << ",\"v\":" << v << ",\"a\":" << a << ",\"d\":" << d
      << ",\"p\":" << p << ",\"var\":" << var << ",\"kv\":" << jl(kv) << ",\"now\":" << g_now_ms.load()
      << ",\"ret\":" << ret << ",\"rc\":" << rc << ",\"rl\":" << jl(rl) << ",\"size\":" << qsize
      << ",\"size2\":" << qsize2 << ",\"empty\":" << (o.empty ? 1 : 0) << ",\"cap\":" << o.cap << ",\"obs\":[";
    for (size_t i = 0; i < o.obs.size(); ++i)
        s << (i ? "," : "") << "[" << o.obs[i][0] << "," << o.obs[i][1] << "," << o.obs[i][2] << "]";
    s << "],\"skip\":[";
    for (size_t i = 0; i < o.skip.size(); ++i)
        s << (i ? "," : "") << o.skip[i];
    s << "]}\n";
    std::string str = s.str();
    fwrite(str.data(), 1, str.size(), g_out);
    fflush(g_out);
}

void finish(Session& S)
{
    if (S.c)
    {
        S.c.reset();
        long live = HVal::live().load() - S.live_base;
        fprintf(g_out, "{\"e\":\"destroy\",\"live\":%ld,\"faults\":%ld}\n", live, HVal::faults().load());
        fflush(g_out);
    }
}

} // namespace

int main(int argc, char** argv)
{
    std::istream* in = &std::cin;
    std::ifstream fin;
    if (argc > 1 && std::strcmp(argv[1], "-") != 0)
    {
        fin.open(argv[1]);
        if (!fin)
        {
            fprintf(stderr, "cannot open script %s\n", argv[1]);
            return 2;
        }
        in = &fin;
    }
    if (argc > 2 && std::strcmp(argv[2], "-") != 0)
    {
        g_out = fopen(argv[2], "w");
        if (!g_out)
        {
            fprintf(stderr, "cannot open trace %s\n", argv[2]);
            return 2;
        }
    }

    Session     S;
    std::string line;
    long        lineno = 0;
    const std::vector<KV>                  nokv;
    const std::vector<std::pair<int, int>> norl;
    while (std::getline(*in, line))
    {
        ++lineno;
        std::istringstream t(line);
        std::string        op;
        if (!(t >> op) || op[0] == '#')
            continue;
        g_quiet = false;
        if (op[0] == '~')
        {
            g_quiet = true;
            op      = op.substr(1);
        }
        if (op == "cfg")
        {
            finish(S);
            std::string kind;
            int         ts, mlf100;
            Cfg         g;
            t >> kind >> g.cap >> ts >> mlf100 >> g.ttl >> g.tick >> g.rnum >> g.rsh >> g.flavour >> g.keys;
            bool okc = static_cast<bool>(t);
            if (!(t >> g.us))
                g.us = 250;
            g_us_per_tick = g.us;
            g_now_ms      = 1000; // every execution starts its own clock (keeps tick counts small)
            if (!kind_from(kind, g.kind) || !okc)
            {
                fprintf(stderr, "bad cfg line %ld\n", lineno);
                return 2;
            }
            g.ts       = ts != 0;
            g.mlf      = static_cast<float>(mlf100) / 100.0f;
            S.cfg      = g;
            S.caps     = caps_of(g.kind);
            S.cur_ttl  = g.ttl;
            S.D.clear();
            S.live_base = HVal::live().load();
            fprintf(
                g_out,
                "{\"e\":\"cfg\",\"kind\":\"%s\",\"cap\":%zu,\"ts\":%d,\"mlf\":%d,\"ttl\":%d,\"tick\":%d,\"rnum\":%d,"
                "\"rsh\":%d,\"fl\":%d,\"keys\":%d,\"now\":%lld,\"us\":%lld}\n",
                kind.c_str(),
                g.cap,
                ts,
                mlf100,
                static_cast<int>(g.ttl * kTicksPerTtlUnit),
                static_cast<int>(g.tick * kTicksPerTtlUnit),
                g.rnum,
                g.rsh,
                g.flavour,
                g.keys,
                g_now_ms.load(),
                g.us);
            fflush(g_out);
            S.c = make_cache(g);
            continue;
        }
        if (op == "destroy")
        {
            finish(S);
            continue;
        }
        if (!S.c)
        {
            fprintf(stderr, "line %ld: no container\n", lineno);
            return 2;
        }
        const long long now = g_now_ms.load();
        if (op == "ins")
        {
            int k, v, a, d;
            t >> k >> v >> a >> d;
            bool r = S.c->insert(k, v, a, d);
            if (r && S.caps.ttl_cache)
                S.D[k] = {now + kTicksPerTtlUnit * (S.caps.entry_ttl ? d : S.cur_ttl)};
            emit(S, "ins", k, v, a, static_cast<int>(d * kTicksPerTtlUnit), 0, 0, nokv, r ? 1 : 0, 0, norl);
        }
        else if (op == "insr")
        {
            int a, var, n;
            t >> a >> var >> n;
            std::vector<KV> kv(n);
            for (auto& e : kv)
                t >> e.k >> e.v >> e.d;
            size_t r = S.c->insert_range(kv, a, var);
            if (S.caps.ttl_cache)
                for (auto& e : kv)
                {
                    // insert_or_update always writes: the latest element for a key decides.
                    if (a == 3)
                        S.D[e.k].clear();
                    S.D[e.k].insert(now + kTicksPerTtlUnit * (S.caps.entry_ttl ? e.d : S.cur_ttl));
                }
            for (auto& e : kv)
                e.d = static_cast<int>(e.d * kTicksPerTtlUnit); // logged in ticks
            emit(S, "insr", 0, 0, a, 0, 0, var, kv, static_cast<long>(r), 0, norl);
        }
        else if (op == "era")
        {
            int k;
            t >> k;
            bool r = S.c->erase(k);
            S.D[k].clear();
            emit(S, "era", k, 0, 0, 0, 0, 0, nokv, r ? 1 : 0, 0, norl);
        }
        else if (op == "erar")
        {
            int var, n;
            t >> var >> n;
            std::vector<int> ks(n);
            for (auto& k : ks)
                t >> k;
            size_t          r = S.c->erase_range(ks, var);
            std::vector<KV> kv;
            for (int k : ks)
                kv.push_back(KV{k, 0, 0});
            emit(S, "erar", 0, 0, 0, 0, 0, var, kv, static_cast<long>(r), 0, norl);
        }
        else if (op == "find")
        {
            int k, p;
            t >> k >> p;
            int r = S.c->find(k, p != 0);
            if (r == 0)
                S.D[k].clear();
            emit(S, "find", k, 0, 0, 0, p, 0, nokv, r, 0, norl);
        }
        else if (op == "findc")
        {
            int k, p;
            t >> k >> p;
            auto r = S.c->find_wc(k, p != 0);
            emit(S, "findc", k, 0, 0, 0, p, 0, nokv, r.first, r.second, norl);
        }
        else if (op == "findr" || op == "findf")
        {
            int p, var, n;
            t >> p >> var >> n;
            std::vector<int> ks(n);
            for (auto& k : ks)
                t >> k;
            auto r = op == "findr" ? S.c->find_range(ks, p != 0, var) : S.c->find_range_fill(ks, p != 0, var);
            std::vector<KV> kv;
            for (int k : ks)
                kv.push_back(KV{k, 0, 0});
            emit(S, op.c_str(), 0, 0, 0, 0, p, var, kv, 0, 0, r);
        }
        else if (op == "clean")
        {
            size_t r = S.c->clean();
            emit(S, "clean", 0, 0, 0, 0, 0, 0, nokv, static_cast<long>(r), 0, norl);
        }
        else if (op == "age")
        {
            size_t r = S.c->age();
            emit(S, "age", 0, 0, 0, 0, 0, 0, nokv, static_cast<long>(r), 0, norl);
        }
        else if (op == "uttl")
        {
            int d;
            t >> d;
            S.c->update_ttl(d);
            S.cur_ttl = d;
            emit(S, "uttl", 0, 0, 0, static_cast<int>(d * kTicksPerTtlUnit), 0, 0, nokv, 0, 0, norl);
        }
        else if (op == "clear")
        {
            S.c->clear();
            S.D.clear();
            emit(S, "clear", 0, 0, 0, 0, 0, 0, nokv, 0, 0, norl);
        }
        else if (op == "tick")
        {
            int d;
            t >> d;
            g_now_ms += d;
            emit(S, "tick", 0, 0, 0, d, 0, 0, nokv, 0, 0, norl, true);
        }
        else if (op == "obs")
        {
            emit(S, "obs", 0, 0, 0, 0, 0, 0, nokv, 0, 0, norl);
        }
        else
        {
            fprintf(stderr, "line %ld: unknown op %s\n", lineno, op.c_str());
            return 2;
        }
        if (!t)
        {
            fprintf(stderr, "line %ld: malformed %s\n", lineno, line.c_str());
            return 2;
        }
    }
    finish(S);
    if (HVal::faults().load() != 0)
        return 3;
    return 0;
}
