// A parsed call of the script language and its execution through ICache (shared by conc.cpp).
#pragma once
#include "adapters.hpp"

#include <sstream>
#include <string>
#include <vector>

namespace vh
{
struct Call
{
    std::string     op;
    int             k{0}, v{0}, a{0}, d{0}, p{0}, var{0};
    std::vector<KV> kv;
};

struct Result
{
    long                             ret{0};
    long                             rc{0};
    std::vector<std::pair<int, int>> rl;
};

inline bool parse_call(const std::string& line, Call& c)
{
    std::istringstream t(line);
    if (!(t >> c.op))
        return false;
    int n = 0;
    if (c.op == "ins")
        t >> c.k >> c.v >> c.a >> c.d;
    else if (c.op == "insr")
    {
        t >> c.a >> c.var >> n;
        c.kv.resize(n);
        for (auto& e : c.kv)
            t >> e.k >> e.v >> e.d;
    }
    else if (c.op == "era")
        t >> c.k;
    else if (c.op == "erar")
    {
        t >> c.var >> n;
        c.kv.resize(n);
        for (auto& e : c.kv)
        {
            t >> e.k;
            e.v = e.d = 0;
        }
    }
    else if (c.op == "find" || c.op == "findc")
        t >> c.k >> c.p;
    else if (c.op == "findr" || c.op == "findf")
    {
        t >> c.p >> c.var >> n;
        c.kv.resize(n);
        for (auto& e : c.kv)
        {
            t >> e.k;
            e.v = e.d = 0;
        }
    }
    else if (c.op == "uttl" || c.op == "tick")
        t >> c.d;
    else if (c.op == "clean" || c.op == "age" || c.op == "clear" || c.op == "obs" || c.op == "size" || c.op == "empty" ||
             c.op == "capacity")
    {
    }
    else
        return false;
    return static_cast<bool>(t);
}

inline Result exec_call(ICache& c, Call& k)
{
    Result r;
    if (k.op == "ins")
        r.ret = c.insert(k.k, k.v, k.a, k.d) ? 1 : 0;
    else if (k.op == "insr")
        r.ret = static_cast<long>(c.insert_range(k.kv, k.a, k.var));
    else if (k.op == "era")
        r.ret = c.erase(k.k) ? 1 : 0;
    else if (k.op == "erar")
    {
        std::vector<int> ks;
        for (auto& e : k.kv)
            ks.push_back(e.k);
        r.ret = static_cast<long>(c.erase_range(ks, k.var));
        k.kv.clear();
        for (int x : ks)
            k.kv.push_back(KV{x, 0, 0});
    }
    else if (k.op == "find")
        r.ret = c.find(k.k, k.p != 0);
    else if (k.op == "findc")
    {
        auto x = c.find_wc(k.k, k.p != 0);
        r.ret  = x.first;
        r.rc   = x.second;
    }
    else if (k.op == "findr" || k.op == "findf")
    {
        std::vector<int> ks;
        for (auto& e : k.kv)
            ks.push_back(e.k);
        r.rl = k.op == "findr" ? c.find_range(ks, k.p != 0, k.var) : c.find_range_fill(ks, k.p != 0, k.var);
        k.kv.clear();
        for (int x : ks)
            k.kv.push_back(KV{x, 0, 0});
    }
    else if (k.op == "clean")
        r.ret = static_cast<long>(c.clean());
    else if (k.op == "age")
        r.ret = static_cast<long>(c.age());
    else if (k.op == "uttl")
        c.update_ttl(k.d);
    else if (k.op == "clear")
        c.clear();
    else if (k.op == "size")
        r.ret = static_cast<long>(c.size());
    else if (k.op == "empty")
        r.ret = c.empty() ? 1 : 0;
    else if (k.op == "capacity")
        r.ret = static_cast<long>(c.capacity());
    return r;
}

inline std::string json_kv(const std::vector<KV>& kv)
{
    std::ostringstream s;
    s << "[";
    for (size_t i = 0; i < kv.size(); ++i)
        s << (i ? "," : "") << "[" << kv[i].k << "," << kv[i].v << "," << kv[i].d << "]";
    s << "]";
    return s.str();
}
inline std::string json_rl(const std::vector<std::pair<int, int>>& v)
{
    std::ostringstream s;
    s << "[";
    for (size_t i = 0; i < v.size(); ++i)
        s << (i ? "," : "") << "[" << v[i].first << "," << v[i].second << "]";
    s << "]";
    return s.str();
}

inline bool parse_cfg(std::istringstream& t, Cfg& g, std::string& kind, int& ts, int& mlf100)
{
    t >> kind >> g.cap >> ts >> mlf100 >> g.ttl >> g.tick >> g.rnum >> g.rsh >> g.flavour >> g.keys;
    if (!t || !kind_from(kind, g.kind))
        return false;
    if (!(t >> g.us))
        g.us = 250;
    g_us_per_tick = g.us;
    g_now_ms      = 1000;
    g.ts  = ts != 0;
    g.mlf = static_cast<float>(mlf100) / 100.0f;
    return true;
}

} // namespace vh
