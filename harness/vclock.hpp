// Virtual clock: the harness binary defines std::chrono::steady_clock::now() itself (link-time
// replacement, DESIGN.md section 4), so every container call sees exactly the instant chosen by
// the driver.  1 tick = 1 ms.  Must be included in exactly one translation unit with
// VERIF_DEFINE_CLOCK defined; other units only see the declaration of g_now_ms.
#pragma once
#include <atomic>
#include <chrono>

extern std::atomic<long long> g_now_ms;

#ifdef VERIF_DEFINE_CLOCK
std::atomic<long long> g_now_ms{1000};
namespace std
{
namespace chrono
{
inline namespace _V2
{
steady_clock::time_point steady_clock::now() noexcept
{
    return time_point(duration_cast<duration>(milliseconds(g_now_ms.load(std::memory_order_seq_cst))));
}
} // namespace _V2
} // namespace chrono
} // namespace std
#endif
