// Virtual clock: the harness binary defines std::chrono::steady_clock::now() itself (link-time
// replacement, DESIGN.md section 4), so every container call sees exactly the instant chosen by
// the driver.  1 tick = 1 ms.  Must be included in exactly one translation unit with
// VERIF_DEFINE_CLOCK defined; other units only see the declaration of g_now_ms.
#pragma once
#include <atomic>
#include <chrono>

// g_now_ms counts clock ticks.  One tick = g_us_per_tick microseconds (default 250: a quarter of a
// millisecond, so that the library's millisecond ttls are 4 ticks and sub-millisecond arithmetic
// is observable; a huge value makes ttls of weeks and years representable in 32-bit tick counts).
extern std::atomic<long long> g_now_ms;
extern std::atomic<long long> g_us_per_tick;
constexpr long long           kTicksPerTtlUnit = 4;
inline std::chrono::milliseconds ttl_ms(long long d)
{
    return std::chrono::milliseconds(d * kTicksPerTtlUnit * g_us_per_tick.load() / 1000);
}

#ifdef VERIF_DEFINE_CLOCK
std::atomic<long long> g_now_ms{1000};
std::atomic<long long> g_us_per_tick{250};
namespace std
{
namespace chrono
{
inline namespace _V2
{
steady_clock::time_point steady_clock::now() noexcept
{
    return time_point(duration_cast<duration>(
        microseconds(g_now_ms.load(std::memory_order_seq_cst) * g_us_per_tick.load(std::memory_order_seq_cst))));
}
} // namespace _V2
} // namespace chrono
} // namespace std
#endif
