// Concurrent harness.
//
//   conc sched <program> <trace>     deterministic scheduler: replays chosen thread schedules at
//                                    critical-section granularity through the guarded lock hooks
//                                    (cappuccino::verif::g_lock_hooks); real threads, exactly one
//                                    runnable at a time; projection taken after every critical section
//   conc free <program> <trace>      free-running threads; with "record 1" every call logs the
//                                    sequence number drawn under the container lock (after_lock hook),
//                                    with "record 0" nothing is installed (ThreadSanitizer runs)
//
// Program (sched): blocks of
//   case <id> / cfg ... / pre <call> / thr <t> <call> / sched I0 C0 T3 ... / end
// Program (free):
//   cfg ... / pre <call> / threads <n> / calls <m> / seed <s> / record <0|1> / keys <k>
//   method <t> <opname>   (thread t hammers that method; other threads run the mixed load) / end
#define VERIF_DEFINE_CLOCK
#include "vclock.hpp"

#include "calls.hpp"

#include <algorithm>
#include <condition_variable>
#include <cstring>
#include <fstream>
#include <iostream>
#include <mutex>
#include <random>
#include <set>
#include <thread>

using namespace vh;

namespace
{
FILE* g_out = stdout;

// ---------------------------------------------------------------------------------------------
// shared observation logic (same rule as exec.cpp: never probe a key that may be expired)
struct Model
{
    Cfg                                cfg;
    KindCaps                           caps{};
    std::unique_ptr<ICache>            c;
    int                                cur_ttl{0};
    std::map<int, std::set<long long>> D;

    bool safe(int k)
    {
        if (!caps.ttl_cache)
            return true;
        auto it = D.find(k);
        if (it == D.end() || it->second.empty())
            return true;
        return *it->second.begin() > g_now_ms.load();
    }
    void note(const Call& k, const Result& r)
    {
        const long long now = g_now_ms.load();
        if (k.op == "ins" && r.ret && caps.ttl_cache)
            D[k.k] = {now + kTicksPerTtlUnit * (caps.entry_ttl ? k.d : cur_ttl)};
        else if (k.op == "insr" && caps.ttl_cache)
            for (auto& e : k.kv)
            {
                if (k.a == 3)
                    D[e.k].clear();
                D[e.k].insert(now + kTicksPerTtlUnit * (caps.entry_ttl ? e.d : cur_ttl));
            }
        else if (k.op == "era")
            D[k.k].clear();
        else if (k.op == "find" && r.ret == 0)
            D[k.k].clear();
        else if (k.op == "uttl")
            cur_ttl = k.d;
        else if (k.op == "clear")
            D.clear();
    }
    std::string observe(bool is_tick, bool is_obs)
    {
        std::ostringstream s;
        const bool         probe_first = caps.ut && is_obs;
        size_t             sz = 0;
        bool               em = true;
        if (!probe_first)
        {
            sz = c->size();
            em = c->empty();
        }
        std::ostringstream obs, skip;
        bool               fo = true, fs = true;
        for (int k = 1; k <= cfg.keys; ++k)
        {
            if ((caps.ut && is_tick) || !safe(k))
            {
                skip << (fs ? "" : ",") << k;
                fs = false;
                continue;
            }
            long v = 0, cn = 0;
            if (caps.has_count)
            {
                auto r = c->find_wc(k, true);
                v      = r.first;
                cn     = r.second;
            }
            else
                v = c->find(k, true);
            if (v != 0)
            {
                obs << (fo ? "" : ",") << "[" << k << "," << v << "," << cn << "]";
                fo = false;
            }
            else
                D[k].clear();
        }
        if (probe_first)
        {
            sz = c->size();
            em = c->empty();
        }
        s << "\"size\":" << sz << ",\"size2\":" << c->size() << ",\"empty\":" << (em ? 1 : 0) << ",\"cap\":" << c->capacity()
          << ",\"obs\":[" << obs.str()
          << "],\"skip\":[" << skip.str() << "]";
        return s.str();
    }
};

std::string call_json(const Call& k)
{
    // ttl arguments are logged in clock ticks (the specification's unit); a tick step already is
    const long long sc = k.op == "tick" ? 1 : kTicksPerTtlUnit;
    std::vector<KV>  kv = k.kv;
    for (auto& e : kv)
        e.d = static_cast<int>(e.d * sc);
    std::ostringstream s;
    s << "\"op\":\"" << k.op << "\",\"k\":" << k.k << ",\"v\":" << k.v << ",\"a\":" << k.a << ",\"d\":" << k.d * sc
      << ",\"p\":" << k.p << ",\"var\":" << k.var << ",\"kv\":" << json_kv(kv);
    return s.str();
}
std::string res_json(const Result& r)
{
    std::ostringstream s;
    s << "\"ret\":" << r.ret << ",\"rc\":" << r.rc << ",\"rl\":" << json_rl(r.rl);
    return s.str();
}
// size()/empty()/capacity() do not purge on ut_map/ut_set: the projection after them is itself the
// first purging call, so size() is re-read after the probes (like an "obs" line)
bool is_observer(const std::string& op)
{
    // clear(): ut_map::clear first asks empty() in a critical section of its own, which does not purge either
    return op == "size" || op == "empty" || op == "capacity" || op == "clear";
}
void put(const std::string& s)
{
    fwrite(s.data(), 1, s.size(), g_out);
    fputc('\n', g_out);
    fflush(g_out);
}
std::string cfg_json(const Cfg& g, const std::string& kind, int ts, int mlf100)
{
    std::ostringstream s;
    s << "{\"e\":\"cfg\",\"kind\":\"" << kind << "\",\"cap\":" << g.cap << ",\"ts\":" << ts << ",\"mlf\":" << mlf100
      << ",\"ttl\":" << g.ttl * kTicksPerTtlUnit << ",\"tick\":" << g.tick * kTicksPerTtlUnit << ",\"rnum\":" << g.rnum
      << ",\"rsh\":" << g.rsh << ",\"fl\":" << g.flavour << ",\"keys\":" << g.keys << ",\"now\":" << g_now_ms.load()
      << ",\"us\":" << g.us << "}";
    return s.str();
}

// ---------------------------------------------------------------------------------------------
// deterministic scheduler
enum class WS
{
    idle,
    running,
    parked,
    finished
};
struct Worker
{
    std::thread       th;
    std::vector<Call> calls;
    size_t            next{0};
    WS                st{WS::idle};
    bool              start{false};
    bool              grant{false};
    bool              quit{false};
    Result            res;
    int               cs_done{0};
};
std::mutex              g_m;
std::condition_variable g_cv;
std::vector<Worker*>    g_workers;
thread_local int        tl_id = -1;
ICache*                 g_cache = nullptr;

void hook_before_lock(const void*)
{
    if (tl_id < 0)
        return;
    std::unique_lock<std::mutex> lk(g_m);
    Worker&                      w = *g_workers[tl_id];
    w.st                           = WS::parked;
    g_cv.notify_all();
    g_cv.wait(lk, [&] { return w.grant; });
    w.grant = false;
    w.st    = WS::running;
}
void hook_after_unlock(const void*)
{
    if (tl_id < 0)
        return;
    std::unique_lock<std::mutex> lk(g_m);
    g_workers[tl_id]->cs_done++;
}

void worker_main(int id)
{
    tl_id     = id;
    Worker& w = *g_workers[id];
    for (;;)
    {
        {
            std::unique_lock<std::mutex> lk(g_m);
            g_cv.wait(lk, [&] { return w.start || w.quit; });
            if (w.quit)
                return;
            w.start = false;
            w.st    = WS::running;
        }
        Call&  k = w.calls[w.next];
        Result r = exec_call(*g_cache, k);
        {
            std::unique_lock<std::mutex> lk(g_m);
            w.res = r;
            w.st  = WS::finished;
            g_cv.notify_all();
        }
    }
}

void wait_settled(Worker& w)
{
    std::unique_lock<std::mutex> lk(g_m);
    g_cv.wait(lk, [&] { return w.st == WS::parked || w.st == WS::finished; });
}

int run_sched(std::istream& in)
{
    cappuccino::verif::g_lock_hooks.before_lock  = hook_before_lock;
    cappuccino::verif::g_lock_hooks.after_unlock = hook_after_unlock;
    std::string line;
    Model       M;
    std::string kind;
    int         ts = 0, mlf100 = 100;
    std::vector<std::vector<Call>> prog;
    std::vector<Call>              pre, post;
    std::string                    sched;
    long                           case_id = 0;
    while (std::getline(in, line))
    {
        std::istringstream t(line);
        std::string        w;
        if (!(t >> w) || w[0] == '#')
            continue;
        if (w == "case")
        {
            t >> case_id;
            prog.clear();
            pre.clear();
            post.clear();
            sched.clear();
        }
        else if (w == "cfg")
        {
            if (!parse_cfg(t, M.cfg, kind, ts, mlf100))
                return 2;
        }
        else if (w == "pre" || w == "thr" || w == "post")
        {
            size_t tid = 0;
            if (w == "thr")
                t >> tid;
            std::string rest;
            std::getline(t, rest);
            Call c;
            if (!parse_call(rest, c))
            {
                fprintf(stderr, "bad call: %s\n", rest.c_str());
                return 2;
            }
            if (w == "pre")
                pre.push_back(c);
            else if (w == "post")
                post.push_back(c);
            else
            {
                if (prog.size() <= tid)
                    prog.resize(tid + 1);
                prog[tid].push_back(c);
            }
        }
        else if (w == "sched")
        {
            std::getline(t, sched);
        }
        else if (w == "end")
        {
            // ---- run one case
            M.caps    = caps_of(M.cfg.kind);
            M.cur_ttl = M.cfg.ttl;
            M.D.clear();
            {
                std::ostringstream s;
                s << "{\"e\":\"case\",\"id\":" << case_id << "}";
                put(s.str());
            }
            put(cfg_json(M.cfg, kind, ts, mlf100));
            M.c     = make_cache(M.cfg);
            g_cache = M.c.get();
            auto run_seq = [&](std::vector<Call>& calls) {
                for (auto& c : calls)
                {
                    if (c.op == "tick")
                    {
                        g_now_ms += c.d;
                        put("{\"e\":\"op\"," + call_json(c) + ",\"now\":" + std::to_string(g_now_ms.load()) + "," +
                            res_json(Result{}) + "," + M.observe(true, false) + "}");
                        continue;
                    }
                    Result r = exec_call(*M.c, c);
                    M.note(c, r);
                    put("{\"e\":\"op\"," + call_json(c) + ",\"now\":" + std::to_string(g_now_ms.load()) + "," +
                        res_json(r) + "," + M.observe(false, c.op == "obs") + "}");
                }
            };
            run_seq(pre);
            std::vector<std::unique_ptr<Worker>> ws;
            g_workers.clear();
            for (size_t i = 0; i < prog.size(); ++i)
            {
                ws.push_back(std::make_unique<Worker>());
                ws.back()->calls = prog[i];
                g_workers.push_back(ws.back().get());
            }
            for (size_t i = 0; i < ws.size(); ++i)
                ws[i]->th = std::thread(worker_main, static_cast<int>(i));

            auto log_settled = [&](size_t tid, int cs_before) {
                Worker& w = *ws[tid];
                wait_settled(w);
                int cs_now;
                WS  st;
                {
                    std::unique_lock<std::mutex> lk(g_m);
                    cs_now = w.cs_done;
                    st     = w.st;
                }
                if (cs_now > cs_before || (st == WS::finished && cs_now == 0))
                {
                    std::ostringstream s;
                    s << "{\"e\":\"cs\",\"t\":" << tid << ",\"call\":" << w.next << ",\"n\":" << cs_now
                      << ",\"now\":" << g_now_ms.load() << ","
                      << M.observe(false, is_observer(w.calls[w.next].op)) << "}";
                    put(s.str());
                }
                if (st == WS::finished)
                {
                    Call& c = w.calls[w.next];
                    M.note(c, w.res);
                    std::ostringstream s;
                    s << "{\"e\":\"res\",\"t\":" << tid << ",\"call\":" << w.next << "," << call_json(c) << ","
                      << res_json(w.res) << ",\"ncs\":" << cs_now << "}";
                    put(s.str());
                    std::unique_lock<std::mutex> lk(g_m);
                    w.st      = WS::idle;
                    w.cs_done = 0;
                    w.next++;
                }
            };
            auto do_invoke = [&](size_t tid) {
                if (tid >= ws.size())
                    return;
                Worker& w = *ws[tid];
                {
                    std::unique_lock<std::mutex> lk(g_m);
                    if (w.st != WS::idle || w.next >= w.calls.size())
                        return;
                    w.start = true;
                    w.st    = WS::running;
                    g_cv.notify_all();
                }
                {
                    std::ostringstream s;
                    s << "{\"e\":\"inv\",\"t\":" << tid << ",\"call\":" << w.next << "," << call_json(w.calls[w.next])
                      << ",\"now\":" << g_now_ms.load() << "}";
                    put(s.str());
                }
                log_settled(tid, 0);
            };
            auto do_grant = [&](size_t tid) {
                if (tid >= ws.size())
                    return;
                Worker& w = *ws[tid];
                int     before;
                {
                    std::unique_lock<std::mutex> lk(g_m);
                    if (w.st != WS::parked)
                        return;
                    before  = w.cs_done;
                    w.grant = true;
                    w.st    = WS::running;
                    g_cv.notify_all();
                }
                log_settled(tid, before);
            };
            auto all_idle = [&] {
                std::unique_lock<std::mutex> lk(g_m);
                for (auto& w : ws)
                    if (w->st != WS::idle)
                        return false;
                return true;
            };
            std::istringstream ss(sched);
            std::string        step;
            while (ss >> step)
            {
                char   kind_c = step[0];
                size_t arg    = static_cast<size_t>(std::atoi(step.c_str() + 1));
                if (kind_c == 'I')
                    do_invoke(arg);
                else if (kind_c == 'C')
                    do_grant(arg);
                else if (kind_c == 'T' && all_idle())
                {
                    g_now_ms += static_cast<long long>(arg);
                    std::ostringstream s;
                    s << "{\"e\":\"tick\",\"d\":" << arg << ",\"now\":" << g_now_ms.load() << "," << M.observe(true, false)
                      << "}";
                    put(s.str());
                }
            }
            // drain: finish everything that is left, round robin
            for (bool progress = true; progress;)
            {
                progress = false;
                for (size_t i = 0; i < ws.size(); ++i)
                {
                    WS st;
                    {
                        std::unique_lock<std::mutex> lk(g_m);
                        st = ws[i]->st;
                    }
                    if (st == WS::parked)
                    {
                        do_grant(i);
                        progress = true;
                    }
                    else if (st == WS::idle && ws[i]->next < ws[i]->calls.size())
                    {
                        do_invoke(i);
                        progress = true;
                    }
                }
            }
            {
                std::unique_lock<std::mutex> lk(g_m);
                for (auto& w : ws)
                    w->quit = true;
                g_cv.notify_all();
            }
            for (auto& w : ws)
                w->th.join();
            run_seq(post);
            g_cache = nullptr;
            M.c.reset();
            put("{\"e\":\"endcase\",\"live\":" + std::to_string(HVal::live().load()) + "}");
        }
    }
    return 0;
}

// ---------------------------------------------------------------------------------------------
// free-running threads
std::atomic<long>      g_seq{0};
std::atomic<long>      g_stamp{0};
thread_local long      tl_first_seq = -1;
thread_local long      tl_last_seq  = -1;
thread_local int       tl_ncs       = 0;
void hook_after_lock_rec(const void*)
{
    if (tl_id < 0)
        return;
    long s = ++g_seq; // drawn while the container lock is held: the order of critical sections
    if (tl_first_seq < 0)
        tl_first_seq = s;
    tl_last_seq = s;
    tl_ncs++;
}

struct Rec
{
    int    t;
    Call   c;
    Result r;
    long   seq, inv, res;
    int    ncs;
};

Call random_call(std::mt19937& g, const KindCaps& caps, const Cfg& cfg, int keys, const std::string& forced)
{
    auto rk = [&] { return 1 + static_cast<int>(g() % keys); };
    Call c;
    std::string op = forced;
    if (op.empty())
    {
        static const char* ops[] = {"ins", "ins", "ins", "era", "find", "find", "insr", "erar", "findr", "findf",
                                    "size", "empty", "capacity", "clean", "age", "uttl", "clear", "findc"};
        for (;;)
        {
            op = ops[g() % (sizeof ops / sizeof *ops)];
            if (op == "clean" && !caps.has_clean)
                continue;
            if (op == "age" && !caps.has_age)
                continue;
            if (op == "uttl" && !caps.has_uttl)
                continue;
            if (op == "clear" && (!caps.has_clear || g() % 8))
                continue;
            if (op == "findc" && !caps.has_count)
                continue;
            if (op == "capacity" && !caps.has_cap)
                continue;
            break;
        }
    }
    c.op = op;
    c.k  = rk();
    c.v  = caps.is_set ? 1 : 1 + static_cast<int>(g() % 50);
    c.a  = (g() % 4 == 0) ? 1 + static_cast<int>(g() % 2) : 3;
    c.d  = 100000; // nothing expires during a free run (the clock is frozen anyway)
    c.p  = caps.has_peek ? static_cast<int>(g() % 2) : 0;
    if (op == "insr" || op == "erar" || op == "findr" || op == "findf")
    {
        int n = 1 + static_cast<int>(g() % 3);
        for (int i = 0; i < n; ++i)
            c.kv.push_back(KV{rk(), c.v, c.d});
        c.var = cfg.kind == Kind::fifo && (g() % 3 == 0) ? 3 : 0;
    }
    if (op == "uttl")
        c.d = 100000 + static_cast<int>(g() % 3);
    return c;
}

int run_free(std::istream& in)
{
    std::string line;
    Model       M;
    std::string kind;
    int         ts = 1, mlf100 = 100;
    std::vector<Call> pre;
    int               nthreads = 2, ncalls = 1000, seed = 1, record = 1, keys = 4, rounds = 1;
    std::map<int, std::string> forced;
    while (std::getline(in, line))
    {
        std::istringstream t(line);
        std::string        w;
        if (!(t >> w) || w[0] == '#')
            continue;
        if (w == "cfg")
        {
            if (!parse_cfg(t, M.cfg, kind, ts, mlf100))
                return 2;
            forced.clear();
            pre.clear();
        }
        else if (w == "pre")
        {
            std::string rest;
            std::getline(t, rest);
            Call c;
            if (!parse_call(rest, c))
                return 2;
            pre.push_back(c);
        }
        else if (w == "threads")
            t >> nthreads;
        else if (w == "calls")
            t >> ncalls;
        else if (w == "seed")
            t >> seed;
        else if (w == "record")
            t >> record;
        else if (w == "keys")
            t >> keys;
        else if (w == "rounds")
            t >> rounds;
        else if (w == "method")
        {
            int         tid;
            std::string op;
            t >> tid >> op;
            forced[tid] = op;
        }
        else if (w == "end")
        {
            M.caps    = caps_of(M.cfg.kind);
            M.cur_ttl = M.cfg.ttl;
            M.D.clear();
            cappuccino::verif::g_lock_hooks = cappuccino::verif::lock_hooks{};
            if (record)
                cappuccino::verif::g_lock_hooks.after_lock = hook_after_lock_rec;
            put(cfg_json(M.cfg, kind, ts, mlf100));
            M.c = make_cache(M.cfg);
            for (auto& c : pre)
            {
                Result r = exec_call(*M.c, c);
                M.note(c, r);
                if (record)
                    put("{\"e\":\"op\"," + call_json(c) + ",\"now\":" + std::to_string(g_now_ms.load()) + "," +
                        res_json(r) + "," + M.observe(false, c.op == "obs") + "}");
            }
            for (int round = 0; round < rounds; ++round)
            {
                std::vector<std::vector<Rec>> recs(nthreads);
                std::vector<std::thread>      ths;
                std::atomic<int>              ready{0};
                std::atomic<bool>             go{false};
                for (int tid = 0; tid < nthreads; ++tid)
                {
                    ths.emplace_back([&, tid] {
                        tl_id = record ? tid : -1;
                        std::mt19937 g(static_cast<unsigned>(seed * 7919 + tid * 104729 + round * 13));
                        std::string  f = forced.count(tid) ? forced[tid] : "";
                        recs[tid].reserve(ncalls);
                        ready++;
                        while (!go.load())
                            std::this_thread::yield();
                        for (int i = 0; i < ncalls; ++i)
                        {
                            Rec r;
                            r.t          = tid;
                            r.c          = random_call(g, M.caps, M.cfg, keys, f);
                            tl_first_seq = -1;
                            tl_last_seq  = -1;
                            tl_ncs       = 0;
                            r.inv        = record ? ++g_stamp : 0;
                            r.r          = exec_call(*M.c, r.c);
                            r.res        = record ? ++g_stamp : 0;
                            r.seq        = tl_last_seq; // the last critical section: where a two-phase call takes effect
                            r.ncs        = tl_ncs;
                            if (record)
                                recs[tid].push_back(std::move(r));
                        }
                    });
                }
                while (ready.load() < nthreads)
                    std::this_thread::yield();
                go = true;
                for (auto& th : ths)
                    th.join();
                if (record)
                {
                    std::vector<Rec> all;
                    for (auto& v : recs)
                        for (auto& r : v)
                            all.push_back(std::move(r));
                    std::sort(all.begin(), all.end(), [](const Rec& a, const Rec& b) { return a.seq < b.seq; });
                    for (auto& r : all)
                    {
                        std::ostringstream s;
                        s << "{\"e\":\"call\",\"t\":" << r.t << "," << call_json(r.c) << "," << res_json(r.r)
                          << ",\"seq\":" << r.seq << ",\"inv\":" << r.inv << ",\"res\":" << r.res << ",\"ncs\":" << r.ncs
                          << ",\"now\":" << g_now_ms.load() << "}";
                        put(s.str());
                    }
                    // quiescent point: full projection
                    tl_id = -1;
                    Call o;
                    o.op = "obs";
                    put("{\"e\":\"op\"," + call_json(o) + ",\"now\":" + std::to_string(g_now_ms.load()) + "," +
                        res_json(Result{}) + "," + M.observe(false, true) + "}");
                }
            }
            M.c.reset();
            put("{\"e\":\"endcase\",\"live\":" + std::to_string(HVal::live().load()) + "}");
        }
    }
    return 0;
}

} // namespace

int main(int argc, char** argv)
{
    if (argc < 3)
    {
        fprintf(stderr, "usage: conc sched|free <program> [trace]\n");
        return 2;
    }
    std::ifstream fin(argv[2]);
    if (!fin)
    {
        fprintf(stderr, "cannot open %s\n", argv[2]);
        return 2;
    }
    if (argc > 3 && std::strcmp(argv[3], "-") != 0)
    {
        g_out = fopen(argv[3], "w");
        if (!g_out)
            return 2;
    }
    if (std::strcmp(argv[1], "sched") == 0)
        return run_sched(fin);
    return run_free(fin);
}
