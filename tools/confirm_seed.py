"""Dev tool: confirm a sub-agent's seeded change in a fresh scratch worktree and file it under /verif/seeded/<id>/.
   confirm_seed.py <agent-worktree> <id> [origin text]
   Steps: scratch git worktree of /repo HEAD, git apply patch.diff, build + run the 167-test suite (up to 4 tries:
   the ut_map/ut_set tests are timing based), build demo.cpp against the patched and the clean headers, run both.
   Kept only if: patch applies, suite passes, demo fails with the patch and passes without."""
import json, os, shutil, subprocess, sys
src, sid = sys.argv[1], sys.argv[2]
origin = sys.argv[3] if len(sys.argv) > 3 else 'independent sub-agent, fourth round'
V = os.path.dirname(os.path.dirname(os.path.abspath(__file__)))
w = '/tmp/r4/confirm_' + sid
def sh(cmd, **kw):
    return subprocess.run(cmd, shell=True, capture_output=True, text=True, **kw)
sh(f'git -C /repo worktree remove --force {w}'); shutil.rmtree(w, ignore_errors=True)
r = sh(f'git -C /repo worktree add --detach {w} HEAD')
res = {}
try:
    res['apply'] = sh(f'git -C {w} apply {src}/patch.diff').returncode
    b = sh(f'cmake -G Ninja -S {w} -B {w}/_b >/dev/null && cmake --build {w}/_b 2>&1 | tail -5')
    res['build'] = b.returncode
    ok = False
    for _ in range(4):
        t = sh(f'timeout 600 {w}/_b/test/libcappuccino_tests 2>&1 | tail -3')
        if 'All tests passed' in t.stdout and '167 test cases' in t.stdout:
            ok = True; break
    res['tests'] = ok; res['tests_tail'] = t.stdout.strip()[-200:]
    sh(f'g++ -std=c++17 -O1 -pthread -I{w}/inc {src}/demo.cpp -o {w}/demo_mut')
    sh(f'g++ -std=c++17 -O1 -pthread -I/repo/inc {src}/demo.cpp -o {w}/demo_clean')
    m = sh(f'timeout 300 {w}/demo_mut'); c = sh(f'timeout 300 {w}/demo_clean')
    res['demo_mut_rc'] = m.returncode; res['demo_clean_rc'] = c.returncode
finally:
    sh(f'git -C /repo worktree remove --force {w}'); shutil.rmtree(w, ignore_errors=True)
print(sid, res)
good = res.get('apply') == 0 and res.get('build') == 0 and res.get('tests') and res.get('demo_mut_rc') not in (0, None) and res.get('demo_clean_rc') == 0
if good:
    d = os.path.join(V, 'seeded', sid); os.makedirs(d, exist_ok=True)
    shutil.copy(src + '/patch.diff', d); shutil.copy(src + '/demo.cpp', d)
    try: meta = json.load(open(src + '/meta.json'))
    except Exception as e: meta = {'summary': 'meta.json unreadable: %s' % e}
    meta['property'] = sid.split('-')[0]
    meta['demo_expect'] = 'PASS on clean tree, FAIL with patch'
    meta['confirmed_by_me'] = {'what_i_ran': 'tools/confirm_seed.py: scratch git worktree of /repo HEAD: git apply patch.diff; cmake --build; libcappuccino_tests (167 test cases pass, up to 4 tries); demo.cpp built against patched and clean headers: fails with the patch, passes without', 'result': res}
    meta['origin'] = origin
    json.dump(meta, open(d + '/meta.json', 'w'), indent=1)
    print('KEPT', d)
else:
    print('REJECTED', sid)
    sys.exit(1)
