"""C06 (linearizability, atomic ranges) and C07 (data-race freedom).

C06: thread programs x schedules (enumerated by TLC from spec/Conc.tla, or sampled) are replayed
on real threads by the deterministic scheduler in harness/conc.cpp (guarded lock hooks).  The
log is sequentialised at critical-section order -- the only candidates for linearization
points -- and judged by spec/SeqTrace.tla under the structural tags.  Free-running threads are
recorded with the sequence number drawn under the container lock and judged the same way.

C07: (a) lock protocol: every public call must execute at least one critical section (from the
scheduler logs) and spec/Conc.tla's NoRace over the protocol table; (b) sensor: the free-running
driver built with ThreadSanitizer, one run per unordered pair of public methods."""
import itertools
import json
import os
import random
import re
import shutil
import subprocess
import time
from concurrent.futures import ThreadPoolExecutor

import vlib
from vlib import KINDS, NPROC, OUT, SPEC, JAVA_CP, build, cfg_line, log, sh, judge_batch, tlc_trace, max_keys

# "under the sequential rules of the other properties": the whole specification is the sequential
# rule book.  Victims and reaping are still taken from the projection after every critical section
# (resynchronisation), the policy judgements then check them against the hidden order the
# specification carries along the linearization.
C06_TAGS = list(vlib.ALL_TAGS)

METHODS = {
    "lru": ["ins", "insr", "era", "erar", "find", "findr", "findf", "size", "empty", "capacity"],
    "mru": ["ins", "insr", "era", "erar", "find", "findr", "findf", "size", "empty", "capacity"],
    "fifo": ["ins", "insr", "era", "erar", "find", "findr", "findf", "size", "empty", "capacity"],
    "rr": ["ins", "insr", "era", "erar", "find", "findr", "findf", "size", "empty", "capacity"],
    "lfu": ["ins", "insr", "era", "erar", "find", "findc", "findr", "findf", "size", "empty", "capacity"],
    "lfuda": ["ins", "insr", "era", "erar", "find", "findc", "findr", "findf", "age", "size", "empty", "capacity"],
    "tlru": ["ins", "insr", "era", "erar", "find", "findr", "findf", "clean", "size", "empty", "capacity"],
    "utlru": ["ins", "insr", "era", "erar", "find", "findr", "findf", "clean", "uttl", "clear", "size", "empty",
              "capacity"],
    "utmap": ["ins", "insr", "era", "erar", "find", "findr", "findf", "clean", "clear", "size", "empty"],
    "utset": ["ins", "insr", "era", "erar", "find", "findr", "findf", "clean", "size", "empty"],
}


def gen_call(rng, kind, keys, op=None, peek=None):
    op = op or rng.choice(METHODS[kind])
    k = lambda: rng.randint(1, keys)
    v = lambda: 1 if kind == "utset" else rng.randint(1, 9)
    d = rng.choice([5, 50]) if kind == "tlru" else 0
    p = rng.choice([0, 1]) if kind in vlib.PEEK_KINDS else 0
    if peek is not None and kind in vlib.PEEK_KINDS:
        p = peek
    if op == "ins":
        return "ins %d %d %d %d" % (k(), v(), rng.choice([3, 3, 1, 2]), d)
    if op == "insr":
        n = rng.choice([2, 2, 3])
        var = 3 if kind == "fifo" and rng.random() < 0.3 else 0
        return "insr %d %d %d %s" % (rng.choice([3, 3, 1, 2]), var, n, " ".join("%d %d %d" % (k(), v(), d) for _ in range(n)))
    if op == "era":
        return "era %d" % k()
    if op == "erar":
        n = rng.choice([2, 3])
        return "erar 0 %d %s" % (n, " ".join(str(k()) for _ in range(n)))
    if op in ("find", "findc"):
        return "%s %d %d" % (op, k(), p)
    if op in ("findr", "findf"):
        n = rng.choice([2, 3])
        var = 3 if kind == "fifo" and rng.random() < 0.3 else 0
        return "%s %d %d %d %s" % (op, p, var, n, " ".join(str(k()) for _ in range(n)))
    if op == "uttl":
        return "uttl %d" % rng.choice([5, 50])
    return op


def gen_program(rng, kind, nthreads, ncalls):
    cap = rng.choice([1, 2, 2, 3])
    keys = min(4, cap + 1)
    if kind in ("utmap", "utset"):
        cap = 0
        keys = 3
    cfg = dict(kind=kind, cap=cap, ts=1, mlf=rng.choice([50, 100, 400]), ttl=rng.choice([5, 50]), tick=2, rnum=1, rsh=1,
               fl=rng.choice([0, 0, 1]), keys=keys)
    pre = [gen_call(rng, kind, keys, "ins") for _ in range(rng.randint(0, cap + 1))]
    if cap and rng.random() < 0.5:
        # a full cache: the interesting interleavings are those of evicting inserts with everything else
        d = rng.choice([5, 50]) if kind == "tlru" else 0
        pre = ["ins %d %d 3 %d" % (k, rng.randint(1, 9), d) for k in rng.sample(range(1, keys + 1), cap)]
    if kind in vlib.TTL_KINDS and rng.random() < 0.4:
        # some entries are already expired (and not yet removed) when the threads start
        short = 2
        if kind == "tlru":
            pre = ["ins %d %d 3 %d" % (rng.randint(1, keys), rng.randint(1, 9), short) for _ in range(rng.randint(1, cap + 1))]
            pre += [gen_call(rng, kind, keys, "ins") for _ in range(rng.randint(0, 1))]
            pre.append("tick %d" % rng.choice([4 * short - 1, 4 * short, 4 * short + 1]))
        else:
            pre.append("tick %d" % rng.choice([4 * cfg["ttl"] - 1, 4 * cfg["ttl"], 4 * cfg["ttl"] + 1]))
    def pick_op():
        r = rng.random()
        return "ins" if r < 0.3 else ("era" if r < 0.45 else None)
    thr = [[gen_call(rng, kind, keys, pick_op()) for _ in range(ncalls)] for _t in range(nthreads)]
    post = []
    if kind in vlib.TTL_KINDS:
        post = ["tick 19", "obs", "tick 1", "obs", "tick 179", "obs", "tick 1", "obs"]
    elif kind == "lfuda":
        post = ["tick 9", "age", "obs"]
    return dict(cfg=cfg, pre=pre, thr=thr, post=post)


def call_on(kind, op, rng):
    """the method `op` addressed to key 1 (range forms: keys 1 and 2 / 3 and 1)"""
    d = 50 if kind == "tlru" else 0
    v = 1 if kind == "utset" else rng.randint(1, 9)
    p = rng.choice([0, 1]) if kind in vlib.PEEK_KINDS else 0
    ks = rng.choice([[1, 2], [3, 1], [1, 1]])
    if op == "ins":
        return "ins 1 %d %d %d" % (v, rng.choice([3, 1, 2]), d)
    if op == "insr":
        return "insr %d 0 2 %s" % (rng.choice([3, 1, 2]), " ".join("%d %d %d" % (k, v, d) for k in ks))
    if op == "era":
        return "era 1"
    if op == "erar":
        return "erar 0 2 %d %d" % (ks[0], ks[1])
    if op in ("find", "findc"):
        return "%s 1 %d" % (op, p)
    if op in ("findr", "findf"):
        return "%s %d 0 2 %d %d" % (op, p, ks[0], ks[1])
    if op == "uttl":
        return "uttl %d" % rng.choice([5, 50])
    return op


def systematic_programs(rng, kinds, fraction):
    """Every unordered pair of public methods of a container, both addressed to the same key, from
    every kind of starting state: key absent / live / in a full cache / expired and not yet removed /
    expired in a full cache.  One call per thread."""
    out = []
    for kind in kinds:
        m = METHODS[kind]
        ut = kind in ("utmap", "utset")
        cap = 0 if ut else 2
        ttl = 5 if kind in ("utlru", "utmap", "utset") else 0
        live = "ins 1 %d 3 %d" % (1 if kind == "utset" else 7, 50 if kind == "tlru" else 0)
        other = "ins 2 %d 3 %d" % (1 if kind == "utset" else 8, 50 if kind == "tlru" else 0)
        short = "ins 1 %d 3 %d" % (1 if kind == "utset" else 7, 2)       # tlru: 2 ms
        pres = [[], [live]]
        if not ut:
            pres.append([live, other])
        if kind in vlib.TTL_KINDS:
            if kind == "tlru":
                pres.append([short, "tick 9"])
                pres.append([short, other, "tick 9"])
            else:
                pres.append([live, "tick %d" % (4 * ttl + 1)])
                if not ut:
                    pres.append([live, "tick %d" % (4 * ttl - 2), other, "tick 3"])
        post = ["tick 19", "obs", "tick 1", "obs", "tick 179", "obs", "tick 1", "obs"] if kind in vlib.TTL_KINDS else \
               (["tick 9", "age", "obs"] if kind == "lfuda" else [])
        for i, a in enumerate(m):
            for b in m[i:]:
                for pre in pres:
                    if rng.random() > fraction:
                        continue
                    cfg = dict(kind=kind, cap=cap, ts=1, mlf=100, ttl=ttl, tick=2, rnum=1, rsh=1, fl=rng.choice([0, 0, 1]),
                               keys=3)
                    out.append(dict(cfg=cfg, pre=list(pre), thr=[[call_on(kind, a, rng)], [call_on(kind, b, rng)]],
                                    post=post))
    return out


def mass_expiry_programs(rng):
    """more expired entries than any batching threshold a clean-up might use, then clean / lookup /
    observers racing: a clean that lets go of the lock half way shows a size no sequential order has"""
    out = []
    for kind in ("tlru", "utlru", "utmap", "utset"):
        n = 70
        ttl = 2
        cfg = dict(kind=kind, cap=0 if kind in ("utmap", "utset") else n + 2, ts=1, mlf=100, ttl=ttl, tick=2, rnum=1,
                   rsh=1, fl=0, keys=n + 2)
        pre = ["ins %d %d 3 %d" % (k, 1 if kind == "utset" else 5, ttl) for k in range(1, n + 1)]
        pre.append("tick %d" % (4 * ttl + 1))
        for other in ("size", "find 1 0", "ins %d 1 3 %d" % (n + 1, 50), "empty"):
            out.append(dict(cfg=cfg, pre=list(pre), thr=[["clean"], [other]], post=["obs"]))
    return out


def interleavings(seqs):
    """all merges of the per-thread step sequences (order within a thread preserved)"""
    if all(not s for s in seqs):
        yield []
        return
    for i, s in enumerate(seqs):
        if s:
            rest = [x if j != i else x[1:] for j, x in enumerate(seqs)]
            for tail in interleavings(rest):
                yield [s[0]] + tail


def thread_steps(t, ncalls, grants):
    s = []
    for _ in range(ncalls):
        s += ["I%d" % t] + ["C%d" % t] * grants
    return s


def schedules_for(rng, prog, limit, grants=3):
    seqs = [thread_steps(t, len(c), grants) for t, c in enumerate(prog["thr"])]
    total = 1
    n = sum(len(s) for s in seqs)
    # multinomial count
    from math import factorial
    total = factorial(n)
    for s in seqs:
        total //= factorial(len(s))
    if total <= limit:
        return [" ".join(x) for x in interleavings(seqs)]
    out = set()
    while len(out) < limit:
        pos = [0] * len(seqs)
        sched = []
        while any(pos[i] < len(seqs[i]) for i in range(len(seqs))):
            i = rng.choice([i for i in range(len(seqs)) if pos[i] < len(seqs[i])])
            sched.append(seqs[i][pos[i]])
            pos[i] += 1
        out.add(" ".join(sched))
    return sorted(out)


def program_text(cid, prog, sched):
    lines = ["case %d" % cid, cfg_line(prog["cfg"])]
    lines += ["pre " + c for c in prog["pre"]]
    for t, cs in enumerate(prog["thr"]):
        lines += ["thr %d %s" % (t, c) for c in cs]
    lines += ["post " + c for c in prog.get("post", [])]
    lines += ["sched " + sched, "end"]
    return lines


# ------------------------------------------------------------------------------------------
# log -> sequential candidates

def split_cases(lines):
    cases = []
    cur = None
    for ln in lines:
        if ln.startswith('{"e":"case"'):
            cur = []
            cases.append(cur)
        elif cur is not None:
            cur.append(ln)
    return cases


def sequentialise(case_lines):
    """Returns (cfg_line, list of candidate traces, info).  A candidate is a list of SeqTrace
    lines; candidates differ in which critical section of a multi-section call is taken as its
    linearization point."""
    evs = [json.loads(x) for x in case_lines]
    cfg = case_lines[0]
    res = {}
    css = {}
    for e in evs:
        if e["e"] == "res":
            res[(e["t"], e["call"])] = e
        elif e["e"] == "cs":
            css.setdefault((e["t"], e["call"]), []).append(e)
    multi = [k for k, v in css.items() if len(v) > 1]
    info = dict(calls=len(res), multi=len(multi), ncs={("%d.%d" % k): len(v) for k, v in css.items()},
                nolock=[("%d.%d" % k) for k, v in css.items() if len(v) == 1 and v[0]["n"] == 0])
    choices = [range(len(css[k])) for k in multi]
    cands = []
    for pick in itertools.islice(itertools.product(*choices), 16):
        lin = {k: css[k][-1] if k not in multi else None for k in css}
        for k, j in zip(multi, pick):
            lin[k] = css[k][j]
        out = [cfg]
        for e in evs[1:]:
            if e["e"] == "op":
                out.append(json.dumps(e, separators=(",", ":")))
            elif e["e"] == "tick":
                out.append(json.dumps(dict(e="op", op="tick", k=0, v=0, a=0, d=e["d"], p=0, var=0, kv=[], now=e["now"],
                                           ret=0, rc=0, rl=[], size=e["size"], size2=e["size2"], empty=e["empty"], cap=e["cap"],
                                           obs=e["obs"], skip=e["skip"]), separators=(",", ":")))
            elif e["e"] == "cs":
                key = (e["t"], e["call"])
                r = res.get(key)
                if r is not None and lin[key] is e:
                    out.append(json.dumps(dict(e="op", op=r["op"], k=r["k"], v=r["v"], a=r["a"], d=r["d"], p=r["p"],
                                               var=r["var"], kv=r["kv"], now=e["now"], ret=r["ret"], rc=r["rc"],
                                               rl=r["rl"], size=e["size"], size2=e["size2"], empty=e["empty"], cap=e["cap"], obs=e["obs"],
                                               skip=e["skip"]), separators=(",", ":")))
                else:
                    out.append(json.dumps(dict(e="op", op="obs", k=0, v=0, a=0, d=0, p=0, var=0, kv=[], now=e["now"],
                                               ret=0, rc=0, rl=[], size=e["size"], size2=e["size2"], empty=e["empty"], cap=e["cap"],
                                               obs=e["obs"], skip=e["skip"]), separators=(",", ":")))
        cands.append(out)
    return cfg, cands, info


def run_sched_batch(cases, wd, label):
    """cases: list of (prog, sched).  Returns dict(judged, accepted, rejected=[(prog,sched,detail)], multi_cs, nolock, infra)."""
    binp = build("plain", "conc")
    os.makedirs(wd, exist_ok=True)
    chunks = [cases[i::NPROC] for i in range(NPROC) if cases[i::NPROC]]

    def work(ci):
        cs = chunks[ci]
        pp = os.path.join(wd, "%s%d.prog" % (label, ci))
        tp = os.path.join(wd, "%s%d.log" % (label, ci))
        with open(pp, "w") as f:
            for i, (prog, sched) in enumerate(cs):
                f.write("\n".join(program_text(i, prog, sched)) + "\n")
        try:
            r = sh([binp, "sched", pp, tp], timeout=600)
        except subprocess.TimeoutExpired:
            return dict(infra="scheduler run timed out (a schedule deadlocked?)")
        if r.returncode != 0:
            return dict(infra="conc sched failed rc=%s %s" % (r.returncode, r.stdout[-800:]))
        with open(tp) as f:
            logc = split_cases([x.rstrip("\n") for x in f if x.strip()])
        if len(logc) != len(cs):
            return dict(infra="case count mismatch")
        seqs = []
        for lc in logc:
            body = [x for x in lc if not x.startswith('{"e":"endcase"')]
            seqs.append(sequentialise(body))
        # first candidate of every case in one TLC run
        flat = [ln for _, cands, _ in seqs for ln in cands[0]]
        acc, rej, ev, infra = judge_batch(flat, C06_TAGS, wd, "%s%d" % (label, ci))
        if infra:
            return dict(infra=infra)
        rejected = []
        for r in rej:
            idx = r["exec_index"]
            _, cands, info = seqs[idx]
            ok = False
            for j, cand in enumerate(cands[1:], 1):
                cp = os.path.join(wd, "%s%d_alt.ndjson" % (label, ci))
                with open(cp, "w") as f:
                    f.write("\n".join(cand) + "\n")
                rr = tlc_trace(cp, C06_TAGS, max_keys(cand), wd, "%s%d_alt" % (label, ci))
                if rr.get("accepted"):
                    ok = True
                    break
            if not ok:
                rejected.append(dict(prog=cs[idx][0], sched=cs[idx][1], line=r["line_in_exec"], trace=r["trace"],
                                     info=info))
        return dict(judged=len(cs), events=ev, rejected=rejected,
                    multi=sum(1 for _, _, i in seqs if i["multi"]),
                    nolock=[(cs[k][0], cs[k][1], i["nolock"]) for k, (_, _, i) in enumerate(seqs) if i["nolock"]])

    out = dict(judged=0, events=0, rejected=[], multi=0, nolock=[], infra=None)
    with ThreadPoolExecutor(max_workers=NPROC) as ex:
        for r in ex.map(work, range(len(chunks))):
            if r.get("infra"):
                out["infra"] = r["infra"]
                continue
            out["judged"] += r["judged"]
            out["events"] += r["events"]
            out["rejected"] += r["rejected"]
            out["multi"] += r["multi"]
            out["nolock"] += r["nolock"]
    return out


def write_conc_replay(prop, prog, sched, mode="sched"):
    from runner import write_replay
    return write_replay(prop, program_text(0, prog, sched), C06_TAGS, mode)


def replay(meta, script, path):
    prop = meta.get("property", "C06")
    wd = os.path.join(OUT, "replay_%d" % os.getpid())
    mode = meta.get("mode")
    if mode == "sched":
        # script is a program text
        prog, sched = parse_program(script)
        r = run_sched_batch([(prog, sched)], wd, "r")
        shutil.rmtree(wd, ignore_errors=True)
        if r["infra"]:
            print("replay: infrastructure failure: " + r["infra"])
            return 2
        if r["rejected"] or (prop == "C07" and r["nolock"]):
            if r["rejected"]:
                d = r["rejected"][0]
                print("replay: no linearization explains the log (first unexplained event %d)" % d["line"])
                for ln in d["trace"][max(0, d["line"] - 3):d["line"]]:
                    print("   " + ln[:300])
            else:
                print("replay: call(s) executed without any critical section: %s" % r["nolock"][0][2])
            print("VIOLATION property=%s replay=%s" % (prop, path))
            return 1
        print("replay: accepted")
        return 0
    if mode == "tsan":
        import tsancheck
        return tsancheck.replay(meta, script, path)
    if mode == "free":
        import freecheck
        return freecheck.replay(meta, script, path)
    print("unknown replay mode")
    return 2


def parse_program(lines):
    cfg = None
    pre, thr, post, sched = [], [], [], ""
    for ln in lines:
        t = ln.split()
        if t[0] == "cfg":
            cfg = dict(kind=t[1], cap=int(t[2]), ts=int(t[3]), mlf=int(t[4]), ttl=int(t[5]), tick=int(t[6]),
                       rnum=int(t[7]), rsh=int(t[8]), fl=int(t[9]), keys=int(t[10]), us=int(t[11]) if len(t) > 11 else 250)
        elif t[0] == "pre":
            pre.append(" ".join(t[1:]))
        elif t[0] == "post":
            post.append(" ".join(t[1:]))
        elif t[0] == "thr":
            i = int(t[1])
            while len(thr) <= i:
                thr.append([])
            thr[i].append(" ".join(t[2:]))
        elif t[0] == "sched":
            sched = " ".join(t[1:])
    return dict(cfg=cfg, pre=pre, thr=thr, post=post), sched


def check_c06(tier):
    from runner import write_evidence, seed_of
    import concmc
    import freecheck
    seed = seed_of()
    t0 = time.time()
    rng = random.Random(seed * 104729 + 6)
    wd = os.path.join(OUT, "run_C06_%s_%d" % (tier, os.getpid()))
    shutil.rmtree(wd, ignore_errors=True)
    os.makedirs(wd)
    infra = None
    viol = []

    # 1. design level: TLC on the concurrent model (all interleavings of small thread programs)
    mc = concmc.run(tier, os.path.join(wd, "mc"))
    if mc.get("infra"):
        infra = mc["infra"]

    # 2. deterministic replay of schedules on real threads
    nprog = 400 if tier == "quick" else 6000
    cases = []
    for i in range(nprog):
        kind = KINDS[i % len(KINDS)]
        shape = rng.choice([(2, 1), (2, 1), (2, 2), (3, 1)])
        prog = gen_program(rng, kind, *shape)
        lim = 70 if shape == (2, 1) else (24 if tier == "quick" else 60)
        for s in schedules_for(rng, prog, lim):
            cases.append((prog, s))
    # every pair of methods on the same key from every kind of starting state
    for prog in systematic_programs(rng, KINDS, 0.35 if tier == "quick" else 1.0):
        for s in schedules_for(rng, prog, 20, grants=2):
            cases.append((prog, s))
    for prog in mass_expiry_programs(rng):
        for s in schedules_for(rng, prog, 12, grants=3):
            cases.append((prog, s))
    # schedules enumerated by TLC for the model's own programs
    cases += concmc.model_cases(mc, rng)
    sr = run_sched_batch(cases, os.path.join(wd, "sched"), "s")
    if sr["infra"]:
        infra = sr["infra"]
    for d in sr["rejected"][:3]:
        p = write_conc_replay("C06", d["prog"], d["sched"])
        viol.append("VIOLATION property=C06 replay=%s" % p)

    # 3. free-running threads, recorded under the lock
    fr = freecheck.run(tier, os.path.join(wd, "free"), rng)
    if fr.get("infra"):
        infra = fr["infra"]
    for p in fr.get("violations", [])[:2]:
        viol.append("VIOLATION property=C06 replay=%s" % p)

    wall = time.time() - t0
    cov = dict(states=mc.get("states", 0), transitions=mc.get("transitions", 0),
               traces_validated_against_impl=sr["judged"] - len(sr["rejected"]) + fr.get("accepted", 0),
               evaluations=sr["events"] + fr.get("events", 0),
               distinct_nontrivial=len(set((json.dumps(p, sort_keys=True), s) for p, s in cases)),
               rule="thread programs (2x1, 2x2, 3x1 calls over every public method of the ten containers) x schedules at "
                    "critical-section granularity (all merges of invoke/grant steps, 3 grants per call so split critical "
                    "sections are interleaved too), replayed on real threads; every (program, schedule) pair has "
                    "overlapping calls, so all are non-trivial",
               samples=[program_text(0, *cases[0])] if cases else [],
               scheduled_cases=len(cases), cases_with_split_critical_sections=sr["multi"],
               free_running=fr.get("summary"), model_checking=mc.get("runs"), exhaustive=False)
    if infra:
        cov["infra"] = infra[-800:]
    write_evidence("C06", tier, seed, "model_checking", cov,
                   ["TLC", "the deterministic scheduler and the lock hooks (one runnable thread at a time)",
                    "linearization points are critical sections of the container mutex",
                    "the clock is constant while calls overlap"], wall, len(viol))
    for ln in viol:
        print(ln)
    if not os.environ.get("VERIF_KEEP"):
        shutil.rmtree(wd, ignore_errors=True)
    if viol:
        return 1
    if infra:
        print("INFRA: " + infra[-1500:])
        return 2
    print("OK C06 %s: %d scheduled cases (%d events), %d free-running logs, mc states=%s, %.1fs" %
          (tier, sr["judged"], sr["events"], fr.get("accepted", 0), mc.get("states"), wall))
    return 0


def check_c07(tier):
    import tsancheck
    return tsancheck.check(tier)
