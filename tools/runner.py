"""Dispatch of ./check: per-property checks, replay, evidence, known findings."""
import hashlib
import json
import os
import random
import shutil
import sys
import time

import vlib
from vlib import ALL_TAGS, InfraError, KINDS, OUT, VERIF, build, gen_execution, log
import seqcheck
import pairs
from props import SEQ_PROPS

REPLAYS = os.path.join(OUT, "replays")
EVIDENCE = os.path.join(VERIF, "evidence")
KNOWN = os.path.join(VERIF, "known_findings.json")

TIER_EXECS = {"quick": 2000, "thorough": 120000}


def seed_of():
    try:
        return int(os.environ.get("VERIF_SEED", "1"))
    except ValueError:
        return 1


# ------------------------------------------------------------------------------------------
# known findings

def load_known():
    if not os.path.exists(KNOWN):
        return []
    with open(KNOWN) as f:
        return json.load(f).get("findings", [])


def script_cfg(script):
    t = script[0].split()
    return dict(kind=t[1], cap=int(t[2]), ts=int(t[3]), mlf=int(t[4]), ttl=int(t[5]), tick=int(t[6]), rnum=int(t[7]),
                rsh=int(t[8]), fl=int(t[9]), keys=int(t[10]), us=int(t[11]) if len(t) > 11 else 250)


def match_known(prop, script, failing_event):
    """Returns the matching 'known' entry or None.  Matching is on the property, the container
    kind and a defect-specific predicate over the configuration and the first rejected event."""
    c = script_cfg(script)
    for k in load_known():
        if k.get("status") != "known" or k.get("property") != prop:
            continue
        m = k.get("match", {})
        if "kinds" in m and c["kind"] not in m["kinds"]:
            continue
        if "cfg" in m and any(c.get(f) != v for f, v in m["cfg"].items()):
            continue
        if "ops" in m and (failing_event is None or failing_event.get("op") not in m["ops"]):
            continue
        return k
    return None


# ------------------------------------------------------------------------------------------
# replay files

def write_replay(prop, script, strict, mode="seq", extra=None):
    os.makedirs(REPLAYS, exist_ok=True)
    body = "\n".join(script) + "\n"
    h = hashlib.sha256((prop + body).encode()).hexdigest()[:12]
    p = os.path.join(REPLAYS, "%s-%s.script" % (prop, h))
    with open(p, "w") as f:
        f.write("# property=%s mode=%s strict=%s\n" % (prop, mode, ",".join(strict)))
        if extra:
            for k, v in extra.items():
                f.write("# %s=%s\n" % (k, v))
        f.write(body)
    return p


def read_replay(path):
    meta = {}
    script = []
    with open(path) as f:
        for ln in f:
            ln = ln.rstrip("\n")
            if ln.startswith("#"):
                for tok in ln[1:].split():
                    if "=" in tok:
                        k, v = tok.split("=", 1)
                        meta[k] = v
            elif ln.strip():
                script.append(ln)
    return meta, script


def cmd_replay(path):
    meta, script = read_replay(path)
    prop = meta.get("property", "C00")
    mode = meta.get("mode", "seq")
    strict = [t for t in meta.get("strict", "").split(",") if t]
    wd = os.path.join(OUT, "replay_%d" % os.getpid())
    try:
        if mode == "seq":
            v, d = seqcheck.judge_one(script, strict, wd, "replay", meta.get("flavour", "plain"))
        elif mode == "san":
            v, d = seqcheck.judge_one(script, None, wd, "replay", meta.get("flavour", "asan"))
        elif mode == "rrstat":
            import rrstat
            rr = rrstat.judge_scripts(vlib.split_executions(script), wd, "replay")
            shutil.rmtree(wd, ignore_errors=True)
            bad = 0
            for r in rr:
                if r.get("infra"):
                    print("replay: infrastructure failure\n" + r["infra"])
                    return 2
                if r.get("rejected") or not r.get("ok", True):
                    bad += 1
                    print("replay: rr_cache evictions by insertion rank: %s (capacity %s, %s evictions): the choice is "
                          "not spread over the residents" % (r.get("hits"), r.get("cap"), r.get("n")))
                else:
                    print("replay: capacity %s accepted, evictions by insertion rank %s" % (r.get("cap"), r.get("hits")))
            if bad:
                print("VIOLATION property=%s replay=%s" % (prop, path))
                return 1
            return 0
        elif mode == "pair":
            ex = meta.get("extra", "none")
            extra = None
            if ex != "none":
                e = json.loads(ex.replace("_SP_", " "))
                extra = (e[0], e[1])
            v, d = pairs.judge_pair_one(meta["pmode"], script, extra, wd, "replay")
            if v == "reject":
                g = d["rejections"][0]["group"]
                print("replay: the two runs disagree at group %d (%s)" % (g["g"], g["kind"]))
                for e in g["A"]:
                    print("   A " + json.dumps(e)[:300])
                for e in g["B"]:
                    print("   B " + json.dumps(e)[:300])
                print("VIOLATION property=%s replay=%s" % (prop, path))
                shutil.rmtree(wd, ignore_errors=True)
                return 1
            d = dict(out=str(d.get("infra")))
        else:
            import conccheck
            return conccheck.replay(meta, script, path)
    finally:
        pass
    if v == "accept":
        print("replay: accepted (no violation on the current tree)")
        shutil.rmtree(wd, ignore_errors=True)
        return 0
    if v == "infra":
        print("replay: infrastructure failure\n" + d.get("out", ""))
        return 2
    if v == "reject":
        tr = d["trace"]
        i = d["line"]
        print("replay: rejected at event %d of %d under slice %s" % (i - 1, d["n"] - 1, ",".join(strict)))
        for ln in tr[max(0, i - 3):i]:
            print("   " + ln[:300])
    else:
        print("replay: crash / sanitizer report / leak (rc=%s)\n%s" % (d.get("rc"), d.get("out", "")[-2500:]))
    print("VIOLATION property=%s replay=%s" % (prop, path))
    shutil.rmtree(wd, ignore_errors=True)
    return 1


# ------------------------------------------------------------------------------------------
# evidence

def write_evidence(prop, tier, seed, level, coverage, assumptions, wall, violations):
    os.makedirs(EVIDENCE, exist_ok=True)
    ev = dict(property_id=prop, tier=tier, seed=seed, level=level, coverage=coverage, assumptions=assumptions,
              wall_s=round(wall, 2), violations=violations)
    tmp = os.path.join(EVIDENCE, prop + ".json.tmp")
    with open(tmp, "w") as f:
        json.dump(ev, f, indent=1)
    os.replace(tmp, os.path.join(EVIDENCE, prop + ".json"))


# ------------------------------------------------------------------------------------------
# sequential property checks

def failing_event(rej):
    i = rej["line_in_exec"]
    tr = rej["trace"]
    if 1 <= i <= len(tr):
        try:
            return json.loads(tr[i - 1])
        except ValueError:
            return None
    return None


def handle_rejections(prop, rejs, strict, wd, flavour="plain", max_report=3):
    """Minimise, confirm, match against known findings, write replay files.
    Returns (violation_lines, known_lines)."""
    viol, known = [], []
    seen_known = set()
    for rej in rejs[:12]:
        script = rej["script"]
        fe = failing_event(rej)
        k = match_known(prop, script, fe)
        if k:
            if k["id"] not in seen_known:
                seen_known.add(k["id"])
                known.append("KNOWN-FINDING: property=%s %s" % (prop, k["what"]))
            continue
        if len(viol) >= max_report:
            continue
        # the rejected event is line_in_exec of the log = the same line of the script: cut there first
        cut = script[:rej["line_in_exec"]] + ["destroy"] if rej["line_in_exec"] < len(script) else script
        v0, _ = seqcheck.judge_one(cut, strict, os.path.join(wd, "dd"), "cut", flavour)
        if v0 == "reject":
            script = cut
        small = seqcheck.ddmin(script, strict, os.path.join(wd, "dd"), "reject", flavour,
                               budget=40 if not viol else 8)
        v, d = seqcheck.judge_one(small, strict, os.path.join(wd, "dd"), "confirm", flavour)
        if v != "reject":
            small = script
            v, d = seqcheck.judge_one(small, strict, os.path.join(wd, "dd"), "confirm2", flavour)
            if v != "reject":
                log("rejection did not repeat on re-run; not reported (%s)" % v)
                continue
        k = match_known(prop, small, json.loads(d["trace"][d["line"] - 1]) if d["line"] <= len(d["trace"]) else None)
        if k:
            if k["id"] not in seen_known:
                seen_known.add(k["id"])
                known.append("KNOWN-FINDING: property=%s %s" % (prop, k["what"]))
            continue
        p = write_replay(prop, small, strict, "seq", dict(flavour=flavour))
        viol.append("VIOLATION property=%s replay=%s" % (prop, p))
    return viol, known


def check_seq(prop, tier):
    spec = SEQ_PROPS[prop]
    seed = seed_of()
    t0 = time.time()
    rng = random.Random(seed * 1000003 + int(prop[1:]))
    n = TIER_EXECS[tier]
    wd = os.path.join(OUT, "run_%s_%s_%d" % (prop, tier, os.getpid()))
    kinds = spec["kinds"]
    prof = spec["prof"]
    if tier == "thorough":
        # larger scopes than TLC can enumerate: capacities up to 8, up to 12 keys, longer histories
        import copy
        prof = copy.copy(prof)
        prof.caps = list(prof.caps) + [4, 5, 6, 8]
        prof.extra_keys = list(prof.extra_keys) + [4]
        prof.nops = (prof.nops[0], prof.nops[1] * 2)
    execs = [gen_execution(rng, kinds[i % len(kinds)], prof) for i in range(n)]
    # one in eight executions of a time-dependent container runs on the coarse clock: the same
    # history with ttls of weeks to years (deadline arithmetic beyond 2^31 ms)
    for i, e in enumerate(execs):
        if e[0].split()[1] in vlib.TTL_KINDS + ["lfuda"] and rng.random() < 0.125:
            execs[i] = vlib.coarsen(e)
    extra_cov = {}
    viol, known = [], []
    infra = None

    # 1. exhaustive model checking of the operational specification (design level)
    import mccheck
    mc = mccheck.run_for(prop, tier, wd)
    if mc.get("infra"):
        infra = mc["infra"]
    for ce in mc.get("violations", []):
        viol.append(ce)

    if prop == "C02" and tier == "thorough":
        extra_cov["apalache_inductive_invariants"] = mccheck.apalache_bonus(os.path.join(wd, "apalache"))
        for m in extra_cov["apalache_inductive_invariants"]:
            if any(o["counterexample"] for o in m["obligations"]):
                infra = "Apalache refutes the inductive invariant of %s" % m["module"]

    # 2. model-derived call sequences (transition cover + identifying suffixes)
    derived = mccheck.derived_executions(prop, tier, wd, rng)
    # 2b. the scale batch: big capacities, long histories, mass expiry, long ranges
    scale = vlib.scale_batch(rng, kinds, tier)
    all_execs = derived + execs
    if prop == "C02":
        # the listed known finding KF1 is always exercised, so that its KNOWN-FINDING line is always printed
        all_execs += [["cfg utmap 0 0 100 0 1 1 1 0 3 250", "ins 1 5 3 0", "find 1 0", "destroy"],
                      ["cfg utset 0 1 100 0 1 1 1 0 3 250", "ins 2 1 3 0", "insr 3 0 1 3 1 0", "destroy"]]
    extra_cov["scale_batch_executions"] = len(scale)

    # 3. conformance of the real code under the slice of this property
    res = seqcheck.run_scripts(all_execs, spec["strict"], os.path.join(wd, "slice"), "plain", "s", spec["nontrivial"])
    if res.infra:
        infra = res.infra
    # the scale batch in runs of its own (few, long logs: one or two per TLC process)
    sres = seqcheck.run_scripts(scale, spec["strict"], os.path.join(wd, "scale"), "plain", "z", spec["nontrivial"])
    if sres.infra:
        infra = sres.infra
    res.executions += sres.executions
    res.accepted += sres.accepted
    res.events += sres.events
    res.rejections += sres.rejections
    res.crashes += sres.crashes
    res.leaks += sres.leaks
    res.distinct |= sres.distinct
    res.nontrivial_set |= sres.nontrivial_set
    res.nontrivial = len(res.nontrivial_set)
    v2, k2 = handle_rejections(prop, res.rejections, spec["strict"], wd)
    viol += v2
    known += k2
    for c in res.crashes[:2]:
        small = seqcheck.ddmin(c["script"], None, os.path.join(wd, "ddc"), "crash", "plain", budget=30)
        p = write_replay(prop, small, [], "san", dict(flavour="plain"))
        log("crash in plain build rc=%s\n%s" % (c["rc"], c["out"][-1500:]))
        viol.append("VIOLATION property=%s replay=%s" % (prop, p))

    # 3b. the literal two-run form (C18: range vs singles, C19: with vs without no-effect calls,
    #     C20: cleared vs fresh), judged by spec/PairTrace.tla
    pair_cov = None
    if prop in pairs.PAIR_KINDS and not infra:
        npairs = 600 if tier == "quick" else 12000
        batch = pairs.gen_batch(rng, prop, npairs)
        pr = pairs.run_pairs(prop, batch, os.path.join(wd, "pairs"))
        if pr["infra"]:
            infra = pr["infra"]
        pair_cov = dict(pairs=pr["execs"], groups_compared=pr["accepted_groups"], rejected=len(pr["rejections"]),
                        nontrivial_pairs=pr["nontrivial"],
                        sample=batch[0][0][:10] if batch else None)
        for rj in pr["rejections"][:3]:
            a, extra = pairs.minimise(prop, rj["script"], rj["extra"], os.path.join(wd, "pdd"))
            v, _ = pairs.judge_pair_one(prop, a, extra, os.path.join(wd, "pdd"), "confirm")
            if v != "reject":
                a, extra = rj["script"], rj["extra"]
                v, _ = pairs.judge_pair_one(prop, a, extra, os.path.join(wd, "pdd"), "confirm2")
                if v != "reject":
                    log("pair rejection did not repeat; not reported")
                    continue
            p = write_replay(prop, a, [], "pair", dict(pmode=prop, extra=json.dumps(extra, separators=(",", ":"))
                                                       .replace(" ", "_SP_") if extra else "none"))
            viol.append("VIOLATION property=%s replay=%s" % (prop, p))
        extra_cov["two_run_differential"] = pair_cov

    # 3c. C15: the spread statistic over long runs (spec/RrStat.tla)
    if prop == "C15" and not infra:
        import rrstat
        rs = rrstat.run(tier, os.path.join(wd, "rrstat"), rng)
        if rs["infra"]:
            infra = rs["infra"]
        extra_cov["spread_statistic"] = rs["runs"]
        if rs["violations"]:
            # the replay is the whole ascending-capacity run (one process), re-judged once more
            allsc = [ln for sc in rs["scripts"] for ln in sc]
            again = rrstat.judge_scripts(rs["scripts"], os.path.join(wd, "rrstat"), "again")
            if all(a.get("ok", True) for a in again):
                log("spread rejection did not repeat; not reported")
                rs["violations"] = []
        for c, sc, r in rs["violations"][:1]:
            p = write_replay(prop, allsc, ["C15"], "rrstat")
            log("rr_cache capacity %d: evictions by insertion rank %s" % (c, r["hits"]))
            viol.append("VIOLATION property=%s replay=%s" % (prop, p))

    # 4. full conformance (all tags + SPEC): recorded, never decides
    full = None
    if not viol and not infra:
        # (a fifth of the executions; the thorough tier takes up to 30 000; the scale batch is left to the slice)
        sub = all_execs[:30000] if tier == "thorough" else all_execs[:max(200, len(all_execs) // 5)]
        fr = seqcheck.run_scripts(sub, ALL_TAGS, os.path.join(wd, "full"), "plain", "f")
        full = dict(executions=fr.executions, accepted=fr.accepted, rejected=len(fr.rejections))
        if fr.rejections:
            # a rejection here that the slice accepted is either another property's business or
            # model drift; say which tags, never change the exit status
            rej = fr.rejections[0]
            tags = []
            for t in ALL_TAGS:
                vv, _ = seqcheck.judge_one(rej["script"], [t], os.path.join(wd, "full", "attr"), "a_" + t)
                if vv == "reject":
                    tags.append(t)
            full["first_rejection_tags"] = tags
            print("NOTE: full conformance rejected an execution under tags %s (%s)" %
                  (",".join(tags) or "?", "MODEL-DRIFT" if tags == ["SPEC"] else "other property"))

    wall = time.time() - t0
    cov = dict(
        states=mc.get("states", 0), transitions=mc.get("transitions", 0),
        traces_validated_against_impl=res.accepted, evaluations=res.events,
        distinct_nontrivial=res.nontrivial,
        rule="random (seeded) and model-derived call sequences executed on the real containers under a virtual clock; "
             "distinct by call sequence; non-trivial: " + spec["rule"],
        samples=res.samples[:2] + mc.get("samples", [])[:1],
        executions=res.executions, distinct_executions=len(res.distinct), model_derived_executions=len(derived),
        rejected=len(res.rejections), crashes=len(res.crashes), slice=spec["strict"], containers=kinds,
        model_checking=mc.get("runs", []), full_conformance=full,
        exhaustive=False)
    cov.update(extra_cov)
    if infra:
        cov["infra"] = infra[-800:]
    write_evidence(prop, tier, seed, "model_checking", cov,
                   ["TLC and the CommunityModules Json/IOUtils overrides", "the harness (virtual clock, executor, "
                    "never-probe-expired bookkeeping)", "g++/libstdc++"], wall, len(viol))
    for ln in known:
        print(ln)
    for ln in viol:
        print(ln)
    if res.nontrivial < 2 and not viol and not infra:
        print("VACUOUS: fewer than two non-trivial executions for %s" % prop)
        return 2
    if not os.environ.get("VERIF_KEEP"):
        shutil.rmtree(wd, ignore_errors=True)
        shutil.rmtree(wd + "_r", ignore_errors=True)
    if viol:
        return 1
    if infra:
        print("INFRA: " + infra[-1500:])
        return 2
    print("OK %s %s: %d executions (%d model-derived), %d events accepted, %d non-trivial, mc states=%s, %.1fs" %
          (prop, tier, res.executions, len(derived), res.events, res.nontrivial, mc.get("states"), wall))
    return 0


def cmd_setup():
    for t in ("java", "g++", "python3"):
        if not shutil.which(t):
            print("missing tool " + t)
            return 2
    try:
        for fl in ("plain", "asan", "tsan"):
            build(fl)
    except InfraError as e:
        print(str(e))
        return 2
    print("setup ok")
    return 0


def main(argv):
    if not argv:
        print(__doc__)
        return 2
    try:
        if argv[0] == "setup":
            return cmd_setup()
        if argv[0] == "replay":
            return cmd_replay(argv[1])
        if argv[0] == "selftest":
            import selftest
            return selftest.main()
        prop = argv[0]
        tier = argv[1] if len(argv) > 1 else os.environ.get("VERIF_TIER", "quick")
        if tier not in ("quick", "thorough"):
            tier = "quick"
        if prop in SEQ_PROPS:
            return check_seq(prop, tier)
        if prop == "C06":
            import conccheck
            return conccheck.check_c06(tier)
        if prop == "C07":
            import conccheck
            return conccheck.check_c07(tier)
        if prop == "C08":
            import sancheck
            return sancheck.check_c08(tier)
        print("unknown property " + prop)
        return 2
    except InfraError as e:
        print("INFRA: " + str(e))
        return 2
