"""C08: memory safety and exactly-once destruction.  Specification-directed histories (model
transition cover + random churn) executed by the ASan+UBSan+libstdc++-debug-mode build with a
heap-owning, instance-counted, canary-carrying value type; plus the structural invariants of
the implementation-shaped TLA+ modules (spec/impl) checked by TLC."""
import json
import os
import random
import shutil
import time

import vlib
from vlib import KINDS, OUT, Profile, gen_execution, log
import seqcheck
import mccheck


def big_cfg_execution(rng, kind):
    """Capacities around 100 with small load factors and long insert/erase churn: a hash index
    that rehashes while iterators are stored would show here (debug-mode iterators)."""
    cap = rng.choice([40, 64, 100, 128])
    keys = cap + rng.choice([8, 20])
    cfg = dict(kind=kind, cap=cap, ts=rng.choice([0, 1]), mlf=rng.choice([5, 10, 25, 50]), ttl=rng.choice([5, 50]),
               tick=3, rnum=1, rsh=1, fl=rng.choice([0, 1]), keys=keys)
    lines = [vlib.cfg_line(cfg)]
    n = rng.randint(150, 400)
    for _ in range(n):
        r = rng.random()
        k = rng.randint(1, keys)
        if r < 0.62:
            lines.append("ins %d %d 3 %d" % (k, rng.randint(1, 50), rng.choice([3, 20, 100])))
        elif r < 0.80:
            lines.append("era %d" % k)
        elif r < 0.92:
            lines.append("find %d %d" % (k, rng.choice([0, 1]) if kind in vlib.PEEK_KINDS else 0))
        elif r < 0.96 and kind in vlib.TTL_KINDS + ["lfuda"]:
            lines.append("tick %d" % rng.choice([1, 4, 30]))
        else:
            m = rng.randint(1, 12)
            lines.append("insr 3 0 %d %s" % (m, " ".join("%d %d %d" % (rng.randint(1, keys), 5, 7) for _i in range(m))))
    lines.append("destroy")
    return lines


def check_c08(tier):
    from runner import write_evidence, write_replay, seed_of
    seed = seed_of()
    t0 = time.time()
    rng = random.Random(seed * 7919 + 8)
    wd = os.path.join(OUT, "run_C08_%s_%d" % (tier, os.getpid()))
    n = 900 if tier == "quick" else 80000
    nbig = 40 if tier == "quick" else 2500
    prof = Profile(caps=[1, 1, 2, 2, 3, 3, 4], extra_keys=[1, 2, 3], flavours=[0, 1, 1], nops=(40, 120),
                   w=dict(ins=34, era=14, find=12, findc=4, insr=7, erar=4, findr=4, findf=3, tick=9, clean=4, age=4,
                          uttl=2, clear=2, obs=1))
    execs = [gen_execution(rng, KINDS[i % len(KINDS)], prof) for i in range(n)]
    execs += [big_cfg_execution(rng, vlib.CACHE_KINDS[i % len(vlib.CACHE_KINDS)]) for i in range(nbig)]
    execs += vlib.scale_batch(rng, KINDS, tier)       # big capacities, hot keys, mass expiry, long ranges
    infra = None
    viol = []

    # design level: structural invariants of the implementation-shaped modules
    import implcheck
    mc = implcheck.run_all(tier, os.path.join(wd, "impl"))
    if mc.get("infra"):
        infra = mc["infra"]

    derived = mccheck.derived_executions("C01", tier, wd, rng)
    for e in derived:
        # heap-owning flavour for the derived paths
        t = e[0].split()
        t[9] = "1"
        e[0] = " ".join(t)
    all_execs = derived + execs
    res = seqcheck.run_scripts(all_execs, None, os.path.join(wd, "asan"), "asan", "a", None, judge=False)
    bad = [dict(script=c["script"], why="crash/sanitizer rc=%s" % c["rc"], out=c["out"]) for c in res.crashes]
    bad += [dict(script=l["script"], why="live=%s faults=%s" % (l["live"], l["faults"]), out="") for l in res.leaks]
    for b in bad[:3]:
        small = seqcheck.ddmin(b["script"], None, os.path.join(wd, "dd"), "crash", "asan", budget=40)
        v, d = seqcheck.judge_one(small, None, os.path.join(wd, "dd"), "confirm", "asan")
        if v != "crash":
            small = b["script"]
            v, d = seqcheck.judge_one(small, None, os.path.join(wd, "dd"), "confirm2", "asan")
            if v != "crash":
                log("sanitizer finding did not repeat; not reported")
                continue
        p = write_replay("C08", small, [], "san", dict(flavour="asan"))
        log(b["why"] + "\n" + (d.get("out") or b["out"])[-1800:])
        viol.append("VIOLATION property=C08 replay=%s" % p)
    wall = time.time() - t0
    cov = dict(
        states=mc.get("states", 0), transitions=mc.get("transitions", 0),
        traces_validated_against_impl=res.executions - len(res.crashes) - len(res.leaks),
        evaluations=res.executions, distinct_nontrivial=len(res.distinct),
        rule="call sequences (model transition cover with identifying suffixes, random churn over tiny key universes, "
             "large capacities with small load factors) executed by the ASan+UBSan+_GLIBCXX_DEBUG build with std::string "
             "keys and a heap-owning instance-counted value; distinct by call sequence; every one recycles slots and "
             "destroys the container, so all are non-trivial",
        samples=[execs[0][:10], execs[-1][:6]], model_derived_executions=len(derived),
        sanitizer_reports=len(res.crashes), leak_or_canary_failures=len(res.leaks),
        impl_model_checking=mc.get("runs", []), exhaustive=False)
    if infra:
        cov["infra"] = infra[-800:]
    write_evidence("C08", tier, seed, "model_checking" if cov["states"] else "exploration", cov,
                   ["ASan, UBSan and libstdc++ debug mode as observers of undefined behaviour",
                    "the harness value type's instance counter and canary", "TLC for the structural invariants"],
                   wall, len(viol))
    for ln in viol:
        print(ln)
    if not os.environ.get("VERIF_KEEP"):
        shutil.rmtree(wd, ignore_errors=True)
        shutil.rmtree(wd + "_r", ignore_errors=True)
    if viol:
        return 1
    if infra:
        print("INFRA: " + infra[-1500:])
        return 2
    print("OK C08 %s: %d executions under ASan/UBSan/debug-mode, 0 reports, impl states=%s, %.1fs" %
          (tier, res.executions, mc.get("states"), wall))
    return 0
