import sys, os
sys.path.insert(0, os.path.dirname(__file__))
from vlib import *
from seqcheck import *
from concurrent.futures import ThreadPoolExecutor
script = [l.rstrip("\n") for l in open(sys.argv[1]) if l.strip()]
tags = sys.argv[2].split(',') if len(sys.argv) > 2 else ALL_TAGS
wd = os.path.join(OUT, 'why')
def one(t):
    v, d = judge_one(script, [t], wd, 'why_' + t)
    return t, v, d
with ThreadPoolExecutor(max_workers=NPROC) as ex:
    for t, v, d in ex.map(one, tags):
        if v != 'accept':
            print(t, v, d.get('line'), (d.get('out') or '')[-600:])
            if v == 'reject':
                tr = d['trace']; i = d['line']
                for ln in tr[max(0, i - 3):i]:
                    print('   ', ln[:400])
print('done')
