"""TLC runs of the implementation-shaped modules (spec/impl/*.tla)."""
import os
import re
import time
from concurrent.futures import ThreadPoolExecutor

from vlib import JAVA_CP, SPEC, sh

IMPL = os.path.join(SPEC, "impl")
_ST = re.compile(r"(\d+) states generated, (\d+) distinct states found")


def configs():
    """(module, cfg name, expect_violation) for every cfg file under spec/impl.  A cfg whose name
    ends in _pinned or _bad selects a defective rule and must produce a counterexample."""
    out = []
    if not os.path.isdir(IMPL):
        return out
    for f in sorted(os.listdir(IMPL)):
        if f.endswith(".cfg"):
            name = f[:-4]
            mod = name.split("_")[0]
            if os.path.exists(os.path.join(IMPL, mod + ".tla")):
                out.append((mod, name, name.endswith("_pinned") or name.endswith("_bad")))
    return out


def run_one(mod, cfgname, wd, timeout, expect_violation=False):
    md = os.path.join(wd, mod + "_" + cfgname + ".md")
    cmd = ["java", "-DTLA-Library=" + SPEC, "-Xmx6g", "-XX:+UseParallelGC", "-cp", JAVA_CP, "tlc2.TLC", "-noGenerateSpecTE", "-workers", "4", "-metadir", md, "-config",
           os.path.join(IMPL, cfgname + ".cfg"), os.path.join(IMPL, mod + ".tla")]
    t0 = time.time()
    try:
        r = sh(cmd, timeout=timeout, cwd=IMPL)
        rc, text = r.returncode, r.stdout
    except Exception as e:  # timeout
        rc, text = 124, str(e)
    import shutil
    shutil.rmtree(md, ignore_errors=True)
    m = _ST.search(text)
    run = dict(module=mod, cfg=cfgname, rc=rc, wall_s=round(time.time() - t0, 1))
    if m:
        run["transitions"], run["states"] = int(m.group(1)), int(m.group(2))
    run["violated"] = "is violated" in text or "Error: " in text and "evaluat" in text
    run["complete"] = "No error has been found" in text
    run["tail"] = text[-1500:] if not (run["complete"] or run["violated"]) else ""
    return run


def run_all(tier, wd):
    os.makedirs(wd, exist_ok=True)
    res = dict(states=0, transitions=0, runs=[])
    jobs = configs()
    timeout = 200 if tier == "quick" else 1800

    def one(j):
        return j, run_one(j[0], j[1], wd, timeout, j[2])

    with ThreadPoolExecutor(max_workers=4) as ex:
        for (mod, cfgname, expect), run in ex.map(one, jobs):
            run["expect_violation"] = expect
            res["runs"].append({k: v for k, v in run.items() if k != "tail"})
            if expect:
                # the pre-repair rule must still produce its counterexample (the layer can see that class of bug)
                if not run["violated"]:
                    res["infra"] = "defective variant %s no longer yields a counterexample\n%s" % (cfgname, run["tail"])
            else:
                res["states"] += run.get("states", 0)
                res["transitions"] += run.get("transitions", 0)
                if run["violated"]:
                    res["infra"] = "implementation-shaped model %s violates its invariants" % mod
                elif not run["complete"]:
                    res["infra"] = "TLC failed on %s:\n%s" % (cfgname, run["tail"])
    return res
