"""Design-level model checking (TLC on spec/MCCap.tla) and model-derived call sequences."""
import json
import os
import re
import shutil
import subprocess
import time
from concurrent.futures import ThreadPoolExecutor

import vlib
from vlib import JAVA_CP, OUT, SPEC, cfg_line, log, sh

INVARIANTS = "TypeOK SizeInv OrderInv PropC01 PropStore PropTtl PropVictim PropCount PropIdle"
PROPERTIES = "PropC03 PropC19"

# which kinds a property's design-level run explores
MC_KINDS = {
    "C01": vlib.KINDS, "C02": vlib.KINDS, "C03": vlib.KINDS, "C09": vlib.KINDS, "C18": vlib.KINDS, "C19": vlib.KINDS,
    "C04": vlib.TTL_KINDS, "C05": vlib.TTL_KINDS, "C17": vlib.TTL_KINDS,
    "C10": ["lru", "tlru", "utlru"], "C11": ["lfu", "lfuda"], "C12": ["fifo"], "C13": ["mru"], "C14": ["lfuda"],
    "C15": ["rr"], "C16": ["tlru", "utlru"], "C20": ["utlru", "utmap"],
}


def constants(kind, tier, derive=False):
    """TLC constants per kind.  `derive`: the (smaller) configuration whose transitions are
    printed and turned into call sequences."""
    c = dict(Keys="{1,2,3}", Vals="{1,2}", Caps="{1,2}", TtlArgs="{0}", TickSteps="{1}", MaxRange="2", MaxCnt="4")
    if kind in ("tlru", "utlru", "utmap", "utset"):
        c["TtlArgs"] = "{0,1,3}"
        c["TickSteps"] = "{1,2}"
    if kind == "lfuda":
        c["TickSteps"] = "{1,3}"
        c["Vals"] = "{1}"
        c["MaxCnt"] = "3"
        c["MaxRange"] = "1"
    if kind == "lfu":
        c["Vals"] = "{1}"
    if kind in ("tlru", "utlru"):
        c["Vals"] = "{1}"
        c["MaxRange"] = "1"
    if tier == "thorough" and not derive:
        if kind in ("lru", "mru", "fifo", "rr"):
            c.update(Keys="{1,2,3,4}", Caps="{1,2,3}", MaxRange="2")
        elif kind == "lfu":
            c.update(Keys="{1,2,3,4}", Caps="{1,2,3}", Vals="{1,2}", MaxCnt="4")
        elif kind == "lfuda":
            c.update(MaxCnt="4", MaxRange="2")
        elif kind in ("tlru", "utlru"):
            c.update(Vals="{1,2}", MaxRange="2", Caps="{1,2,3}", TtlArgs="{0,1,2,3}")
        elif kind in ("utmap", "utset"):
            c.update(Keys="{1,2,3,4}")
    if derive:
        c["Vals"] = "{1}"
        c["MaxRange"] = "1"
        c["Caps"] = "{2}" if kind in ("tlru", "utlru", "lfuda") and tier == "quick" else c["Caps"]
    return c


def write_cfg(path, kind, consts, emit):
    with open(path, "w") as f:
        f.write("SPECIFICATION MSpec\nCONSTANTS\n  Strict = {}\n  MCKind = \"%s\"\n" % kind)
        for k, v in consts.items():
            f.write("  %s = %s\n" % (k, v))
        f.write("  Emit = %s\n" % ("TRUE" if emit else "FALSE"))
        f.write("VIEW MView\nCONSTRAINT CntBound\nINVARIANTS %s\nPROPERTIES %s\n" % (INVARIANTS, PROPERTIES))
        f.write("ACTION_CONSTRAINT EmitEdge\nCHECK_DEADLOCK FALSE\n")


def run_tlc(cfgp, md, workers, timeout, outp=None, extra=None):
    cmd = ["java", "-Xmx8g", "-XX:+UseParallelGC", "-cp", JAVA_CP, "tlc2.TLC", "-noGenerateSpecTE", "-workers", str(workers), "-metadir", md,
           "-config", cfgp] + (extra or []) + [os.path.join(SPEC, "MCCap.tla")]
    t0 = time.time()
    try:
        if outp:
            with open(outp, "w") as fo:
                r = subprocess.run(cmd, stdout=fo, stderr=subprocess.STDOUT, timeout=timeout, cwd=SPEC)
            with open(outp, errors="replace") as fi:
                # only the non-EDGE lines
                text = "".join(ln for ln in fi if not ln.startswith('<<"EDGE"'))
            rc = r.returncode
        else:
            r = sh(cmd, timeout=timeout, cwd=SPEC)
            rc, text = r.returncode, r.stdout
    except subprocess.TimeoutExpired:
        rc, text = 124, "TIMEOUT after %ds" % timeout
    shutil.rmtree(md, ignore_errors=True)
    return rc, text, time.time() - t0


_ST = re.compile(r"(\d+) states generated, (\d+) distinct states found")


def run_for(prop, tier, wd):
    """Exhaustive TLC runs of the operational model for the kinds this property talks about."""
    kinds = MC_KINDS.get(prop, [])
    os.makedirs(os.path.join(wd, "mc"), exist_ok=True)
    res = dict(states=0, transitions=0, runs=[], violations=[], samples=[])
    timeout = 240 if tier == "quick" else 3000

    def one(kind):
        consts = constants(kind, tier)
        cfgp = os.path.join(wd, "mc", "%s.cfg" % kind)
        write_cfg(cfgp, kind, consts, False)
        rc, text, wall = run_tlc(cfgp, os.path.join(wd, "mc", kind + ".md"), 4 if tier == "quick" else 8, timeout,
                                 extra=["-coverage", "1"])
        return kind, consts, rc, text, wall

    with ThreadPoolExecutor(max_workers=4 if tier == "quick" else 2) as ex:
        outs = list(ex.map(one, kinds))
    for kind, consts, rc, text, wall in outs:
        m = _ST.search(text)
        run = dict(kind=kind, constants=consts, wall_s=round(wall, 1), rc=rc)
        if m:
            run["transitions"], run["states"] = int(m.group(1)), int(m.group(2))
            res["states"] += run["states"]
            res["transitions"] += run["transitions"]
        run["complete"] = "Model checking completed. No error has been found." in text
        # per-action coverage (distinct:generated); an applicable call that was never taken means the
        # properties were not exercised for it
        acts = {}
        for mm in re.finditer(r"<(Do\w+) line .*? of module MCCap>: (\d+):(\d+)", text):
            acts[mm.group(1)] = int(mm.group(3))
        run["transitions_by_action"] = acts
        need = ["DoInsert", "DoErase", "DoFind", "DoInsertRange", "DoEraseRange", "DoFindRange"]
        if kind in ("tlru", "utlru", "utmap", "utset"):
            need += ["DoClean", "DoTick"]
        if kind == "lfuda":
            need += ["DoAge", "DoTick"]
        if kind == "utlru":
            need += ["DoUttl", "DoClear"]
        if kind == "utmap":
            need += ["DoClear"]
        if run["complete"] and acts:
            never = [a for a in need if acts.get(a, 0) == 0]
            if never:
                res["infra"] = "vacuous model run for %s: actions never taken: %s" % (kind, never)
        res["runs"].append(run)
        if "is violated" in text or "Invariant" in text and "violated" in text:
            # a counterexample of the operational model against its declarative properties: the
            # specification itself is inconsistent -- report as infrastructure, not as a code violation
            res["infra"] = "TLC found a violation in the operational model (%s):\n%s" % (kind, text[-2500:])
        elif rc == 124:
            run["complete"] = False
            log("mc %s: timeout (%ss), counts are of the part explored" % (kind, timeout))
        elif not run["complete"]:
            res["infra"] = "TLC failed on MCCap (%s):\n%s" % (kind, text[-2500:])
    # thorough: random walks of the same model with constants far beyond what BFS can finish
    if tier == "thorough" and not res.get("infra"):
        big = dict(Keys="{1,2,3,4,5}", Vals="{1,2}", Caps="{1,2,3,4}", TtlArgs="{0,1,2,3,5}", TickSteps="{1,2,3}",
                   MaxRange="2", MaxCnt="6")
        seed = os.environ.get("VERIF_SEED", "1")

        def sim(kind):
            c = dict(big)
            if kind not in ("tlru", "utlru", "utmap", "utset"):
                c["TtlArgs"] = "{0}"
            cfgp = os.path.join(wd, "mc", "%s_sim.cfg" % kind)
            with open(cfgp, "w") as f:
                f.write("SPECIFICATION MSpec\nCONSTANTS\n  Strict = {}\n  MCKind = \"%s\"\n" % kind)
                for k, v in c.items():
                    f.write("  %s = %s\n" % (k, v))
                f.write("  Emit = FALSE\nCONSTRAINT CntBound\nINVARIANTS %s\nPROPERTIES %s\nCHECK_DEADLOCK FALSE\n" %
                        (INVARIANTS, PROPERTIES))
            rc, text, wall = run_tlc(cfgp, os.path.join(wd, "mc", kind + "_sim.md"), 4, 900,
                                     extra=["-simulate", "num=4000", "-depth", "60", "-seed", seed])
            return kind, c, rc, text, wall

        with ThreadPoolExecutor(max_workers=3) as ex:
            for kind, c, rc, text, wall in ex.map(sim, kinds):
                m = re.search(r"The number of states generated: (\d+)", text)
                run = dict(kind=kind, mode="simulate num=4000x4 depth=60", constants=c, wall_s=round(wall, 1), rc=rc,
                           states_checked=int(m.group(1)) if m else 0)
                res["runs"].append(run)
                if "is violated" in text:
                    res["infra"] = "TLC simulation found a violation in the operational model (%s):\n%s" % (kind, text[-2500:])
                elif not m:
                    res["infra"] = "TLC simulation failed (%s):\n%s" % (kind, text[-1500:])
    if res["runs"]:
        res["samples"] = [dict(model_checking_run=res["runs"][0])]
    return res


# ------------------------------------------------------------------------------------------
# model-derived call sequences

def _edges(path):
    with open(path, errors="replace") as f:
        for ln in f:
            if ln.startswith('<<"EDGE", '):
                body = ln.rstrip()[len('<<"EDGE", '):-2]
                try:
                    yield json.loads(json.loads(body))
                except ValueError:
                    continue


def _op_line(op, kind):
    o = op["op"]
    if o == "ins":
        return "ins %d %d %d %d" % (op["k"], op["v"], op["a"], op["d"])
    if o == "era":
        return "era %d" % op["k"]
    if o in ("find", "findc"):
        return "%s %d %d" % (o, op["k"], op["p"])
    if o == "insr":
        kv = op["kv"]
        return "insr %d 0 %d %s" % (op["a"], len(kv), " ".join("%d %d %d" % (e[0], e[1], e[2]) for e in kv))
    if o == "erar":
        return "erar 0 %d %s" % (len(op["ks"]), " ".join(map(str, op["ks"])))
    if o in ("findr", "findf"):
        return "%s %d 0 %d %s" % (o, op["p"], len(op["ks"]), " ".join(map(str, op["ks"])))
    if o == "uttl":
        return "uttl %d" % op["d"]
    if o == "tick":
        return "tick %d" % (op["d"] * vlib.R)     # the model's time unit is the ttl unit
    return o  # clean, age, clear


def suffix(kind, cap, nkeys, tick):
    """State-identifying continuation (DESIGN.md 3.4): reveals the hidden order / counts /
    deadlines after the transition under test."""
    fresh = list(range(nkeys + 1, nkeys + 1 + max(cap, 1)))
    allk = " ".join(str(k) for k in range(1, nkeys + 1))
    s = []
    if kind in ("lfu", "lfuda"):
        s += ["findc %d 1" % k for k in range(1, nkeys + 1)]
    if kind == "lfuda":
        s += ["tick %d" % ((tick + 1) * vlib.R), "age"] + ["findc %d 1" % k for k in range(1, nkeys + 1)]
    if kind in ("tlru", "utlru", "utmap", "utset"):
        p = 1 if kind in ("tlru", "utlru") else 0
        for _ in range(3):
            s += ["tick %d" % vlib.R, "findr %d 0 %d %s" % (p, nkeys, allk)]
        s += ["clean"]
    if kind in ("lru", "tlru", "utlru", "fifo"):
        d = 9
        s += ["ins %d 7 3 %d" % (k, d) for k in fresh[:cap]]
    elif kind in ("mru", "rr", "lfu", "lfuda"):
        s += ["ins %d 7 3 0" % fresh[0]]
    return s


_derive_cache = {}


def derived_executions(prop, tier, wd, rng):
    kinds = MC_KINDS.get(prop, [])
    limit = 2500 if tier == "quick" else 60000
    per_kind = max(50, limit // max(1, len(kinds)))
    execs = []
    os.makedirs(os.path.join(wd, "derive"), exist_ok=True)

    def one(kind):
        consts = constants(kind, tier, derive=True)
        cfgp = os.path.join(wd, "derive", "%s.cfg" % kind)
        write_cfg(cfgp, kind, consts, True)
        outp = os.path.join(wd, "derive", "%s.out" % kind)
        rc, text, wall = run_tlc(cfgp, os.path.join(wd, "derive", kind + ".md"), 4, 600 if tier == "quick" else 3000,
                                 outp)
        return kind, consts, rc, outp

    with ThreadPoolExecutor(max_workers=4) as ex:
        outs = list(ex.map(one, kinds))
    for kind, consts, rc, outp in outs:
        nkeys = len(consts["Keys"].split(","))
        parent = {}     # view -> (parent view, op)
        order = []
        edges = []
        for e in _edges(outp):
            f = json.dumps(e["from"], sort_keys=True)
            t = json.dumps(e["to"], sort_keys=True)
            if f not in parent:
                parent[f] = None
                order.append(f)
            if t not in parent:
                parent[t] = (f, e["op"])
                order.append(t)
            edges.append((f, e["op"], e["from"]))
        try:
            os.remove(outp)
        except OSError:
            pass

        def path(v):
            ops = []
            while parent.get(v) is not None:
                pv, op = parent[v]
                ops.append(op)
                v = pv
            ops.reverse()
            return ops

        # distinct (state, call) pairs; sample if above the limit
        seen = set()
        uniq = []
        for f, op, fv in edges:
            key = (f, json.dumps(op, sort_keys=True))
            if key in seen:
                continue
            seen.add(key)
            uniq.append((f, op, fv))
        if len(uniq) > per_kind:
            uniq = rng.sample(uniq, per_kind)
        for f, op, fv in uniq:
            c = fv[0]
            cap = c["cap"]
            if kind in ("utmap", "utset") and c["ttl0"] == 0 and prop != "C02":
                continue    # known finding KF1 (zero ttl) is C02's business
            cfg = dict(kind=kind, cap=cap, ts=rng.choice([0, 1]), mlf=rng.choice(vlib.MLFS), ttl=c["ttl0"],
                       tick=c["tick"], rnum=c["rnum"], rsh=c["rsh"], fl=rng.choice([0, 0, 1]),
                       keys=nkeys + max(cap, 1))
            lines = [cfg_line(cfg)] + [_op_line(o, kind) for o in path(f)] + [_op_line(op, kind)]
            lines += suffix(kind, cap, nkeys, c["tick"]) + ["destroy"]
            execs.append(lines)
    return execs


# ------------------------------------------------------------------------------------------
# bonus: inductive invariants with Apalache (unbounded histories for the size / ttl core)

def apalache_bonus(wd):
    out = []
    os.makedirs(wd, exist_ok=True)
    for mod in ("ApaStore", "ApaTtl"):
        src = os.path.join(SPEC, "apalache", mod + ".tla")
        res = dict(module=mod, obligations=[])
        for name, args in (("Init => IndInv", ["--init=Init", "--inv=IndInv", "--length=0"]),
                           ("IndInv /\\ Next => IndInv'", ["--init=IndInv", "--inv=IndInv", "--length=1"])):
            t0 = time.time()
            try:
                r = sh(["apalache-mc", "check", "--cinit=CInit", "--out-dir=" + os.path.join(wd, "apa-out"),
                        "--run-dir=" + os.path.join(wd, "apa-run")] + args + [src], timeout=600, cwd=wd)
                ok = "EXITCODE: OK" in r.stdout
                err = "The outcome is: Error" in r.stdout
            except Exception as e:      # timeout or missing tool: a bonus, never a failure
                ok, err = False, False
            res["obligations"].append(dict(obligation=name, discharged=ok, counterexample=err, wall_s=round(time.time() - t0, 1)))
        out.append(res)
    shutil.rmtree(os.path.join(wd, "apa-out"), ignore_errors=True)
    shutil.rmtree(os.path.join(wd, "apa-run"), ignore_errors=True)
    return out
