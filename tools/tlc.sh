#!/bin/sh
# tlc.sh <heap> <args...>   run TLC with a small JVM footprint
H=$1; shift
exec java -Xmx$H -XX:+UseSerialGC -XX:TieredStopAtLevel=1 -cp /opt/veriftools/tla/tla2tools.jar:/opt/veriftools/tla/CommunityModules-deps.jar tlc2.TLC "$@"
