"""Per-property configuration of the sequential conformance checks: which containers, which
operation mix, which tags form the slice, and what makes an execution non-trivial."""
import json

from vlib import KINDS, CACHE_KINDS, TTL_KINDS, Profile

NON_TTL = ["lru", "mru", "fifo", "lfu", "lfuda", "rr"]


def evs(trace):
    out = []
    for ln in trace:
        if ln.startswith('{"e":"op"'):
            out.append(json.loads(ln))
    return out


def cfg_of(trace):
    return json.loads(trace[0])


def has_evicting_insert(trace):
    c = cfg_of(trace)
    if c["cap"] == 0:
        return False
    prev = 0
    for e in evs(trace):
        if e["op"] in ("ins", "insr") and e["ret"] >= 1 and prev == c["cap"] and e["size"] == c["cap"]:
            return True
        prev = e["size"]
    return False


def nt_c01(trace):
    E = evs(trace)
    hit = any((e["op"] in ("find", "findc") and e["ret"] != 0) or any(p[1] != 0 for p in e["rl"]) for e in E)
    removed = any(e["op"] in ("era", "erar") and e["ret"] >= 1 for e in E) or has_evicting_insert(trace)
    return hit and removed


def nt_c02(trace):
    E = evs(trace)
    sizes = set(e["size"] for e in E)
    return len(sizes) >= 3 or (len(sizes) >= 2 and cfg_of(trace)["cap"] == 1)


def nt_ttl_boundary(trace):
    """a lookup of a key within one tick of a deadline the log itself reveals (a tick line
    after which a previously present key is skipped or absent)"""
    E = evs(trace)
    return any(e["op"] == "tick" for e in E) and any(e["op"] in ("find", "findr", "findf") for e in E)


def nt_expired_present(trace):
    """some call ran while an expired entry was still counted by size()"""
    E = evs(trace)
    for e in E:
        if e["size"] > len(e["obs"]) + 0 and len(e["skip"]) > 0:
            return True
    return False


def nt_c09(trace):
    E = evs(trace)
    return any(e["op"] == "ins" and e["ret"] == 0 for e in E) and any(e["op"] == "ins" and e["ret"] == 1 and e["a"] != 3
                                                                     for e in E)


def nt_range(trace):
    return any(e["op"] in ("insr", "erar", "findr", "findf") and len(e["kv"]) >= 2 for e in evs(trace))


def nt_noeffect(trace):
    E = evs(trace)
    return any((e["op"] in ("find", "findc") and (e["p"] == 1 or e["ret"] == 0)) or
               (e["op"] in ("ins", "era") and e["ret"] == 0) for e in E) and has_evicting_insert(trace)


def nt_clear(trace):
    E = evs(trace)
    for i, e in enumerate(E):
        if e["op"] == "clear" and i > 0 and E[i - 1]["size"] > 0 and any(x["op"] == "ins" for x in E[i + 1:]):
            return True
    return False


def nt_age(trace):
    return any(e["op"] == "age" and e["ret"] >= 1 for e in evs(trace))


def nt_clean(trace):
    return any(e["op"] == "clean" and e["ret"] >= 1 for e in evs(trace))


churn = dict(ins=34, era=14, find=14, findc=4, insr=6, erar=4, findr=4, findf=2, tick=8, clean=3, age=3, uttl=2, clear=1,
             obs=1)
ttl_mix = dict(ins=30, era=5, find=18, findc=0, insr=5, erar=2, findr=6, findf=4, tick=22, clean=5, age=0, uttl=5,
               clear=1, obs=2)
evict_mix = dict(ins=42, era=7, find=14, findc=6, insr=6, erar=2, findr=5, findf=2, tick=9, clean=2, age=4, uttl=2,
                 clear=0, obs=1)
range_mix = dict(ins=14, era=5, find=8, findc=3, insr=22, erar=10, findr=14, findf=10, tick=8, clean=2, age=2, uttl=2,
                 clear=1, obs=1)

SEQ_PROPS = {
    "C01": dict(kinds=KINDS, strict=["C01"], prof=Profile(w=churn, extra_keys=[1, 2, 2, 3], vals=(1, 9)),
                nontrivial=nt_c01,
                rule="execution contains a lookup hit and a removal (successful erase or evicting insert)"),
    "C02": dict(kinds=KINDS, strict=["C02"], prof=Profile(w=churn), nontrivial=nt_c02,
                rule="size() took at least three different values during the execution"),
    "C03": dict(kinds=KINDS, strict=["C03"], prof=Profile(w=evict_mix, extra_keys=[2, 3, 4]),
                nontrivial=has_evicting_insert, rule="execution contains an insert of a new key into a full cache"),
    "C04": dict(kinds=TTL_KINDS, strict=["C04"], prof=Profile(w=ttl_mix), nontrivial=nt_ttl_boundary,
                rule="execution moves the clock and looks keys up afterwards"),
    "C05": dict(kinds=TTL_KINDS, strict=["C05"], prof=Profile(w=ttl_mix), nontrivial=nt_ttl_boundary,
                rule="execution moves the clock and looks keys up afterwards"),
    "C09": dict(kinds=KINDS, strict=["C09"], prof=Profile(w=churn, allow_w=[(3, 3), (1, 4), (2, 4)]),
                nontrivial=nt_c09, rule="execution contains a rejected insert and a successful insert-only/update-only"),
    "C10": dict(kinds=["lru", "tlru", "utlru"], strict=["C10"],
                prof=Profile(w=evict_mix, extra_keys=[1, 2, 3], tlru_ttls=[5, 8, 13, 40, 40, 40], ttls=[8, 13, 40],
                             uttls=[5, 8, 40, 120]),
                nontrivial=has_evicting_insert, rule="execution contains an evicting insert"),
    "C11": dict(kinds=["lfu", "lfuda"], strict=["C11"], prof=Profile(w=evict_mix, extra_keys=[1, 2, 3]),
                nontrivial=has_evicting_insert, rule="execution contains an evicting insert"),
    "C12": dict(kinds=["fifo"], strict=["C12"], prof=Profile(w=evict_mix, extra_keys=[1, 2, 3]),
                nontrivial=has_evicting_insert, rule="execution contains an evicting insert"),
    "C13": dict(kinds=["mru"], strict=["C13"], prof=Profile(w=evict_mix, extra_keys=[1, 2, 3]),
                nontrivial=has_evicting_insert, rule="execution contains an evicting insert"),
    "C14": dict(kinds=["lfuda"], strict=["C14"],
                prof=Profile(w=dict(evict_mix, tick=18, age=10), extra_keys=[1, 2, 3]), nontrivial=nt_age,
                rule="execution contains a dynamically_age() call that aged at least one entry"),
    "C15": dict(kinds=["rr"], strict=["C15"], prof=Profile(w=evict_mix, extra_keys=[1, 2, 3]),
                nontrivial=has_evicting_insert, rule="execution contains an evicting insert"),
    "C16": dict(kinds=["tlru", "utlru"], strict=["C16"],
                prof=Profile(w=dict(ttl_mix, ins=40, find=8, clean=1), extra_keys=[2, 3, 4]),
                nontrivial=lambda t: has_evicting_insert(t) and nt_expired_present(t),
                rule="execution contains an evicting insert and a moment with an expired entry still counted by size()"),
    "C17": dict(kinds=TTL_KINDS, strict=["C17"], prof=Profile(w=dict(ttl_mix, clean=12)), nontrivial=nt_clean,
                rule="execution contains a clean_expired_values() call that removed at least one entry"),
    "C18": dict(kinds=KINDS, strict=["C18"], prof=Profile(w=range_mix, max_range=7), nontrivial=nt_range,
                rule="execution contains a range call with at least two elements"),
    "C19": dict(kinds=KINDS, strict=["C19"],
                prof=Profile(w=dict(evict_mix, find=22, findc=8, era=10), peek_p=0.7, allow_w=[(3, 4), (1, 3), (2, 3)]),
                nontrivial=nt_noeffect, rule="execution contains a no-effect call (peek, miss, rejected insert, absent "
                                             "erase) and an evicting insert"),
    "C20": dict(kinds=["utlru", "utmap"], strict=["C20"], prof=Profile(w=dict(ttl_mix, clear=8)),
                nontrivial=nt_clear, rule="execution clears a non-empty container and inserts afterwards"),
}
