import sys, os, random, time
sys.path.insert(0, os.path.dirname(__file__))
import pairs, vlib
mode=sys.argv[1]; n=int(sys.argv[2]); seed=int(sys.argv[3]) if len(sys.argv)>3 else 1
rng=random.Random(seed)
b=pairs.gen_batch(rng, mode, n)
t0=time.time()
r=pairs.run_pairs(mode, b, os.path.join(vlib.OUT,'devp_%d'%os.getpid()))
print({k:v for k,v in r.items() if k!='rejections'}, 'rej', len(r['rejections']), 'wall %.1f'%(time.time()-t0))
import json
for x in r['rejections'][:2]:
    g=x['group']; print('--- group', g['g'], g['kind']); 
    for e in g['A']: print(' A', json.dumps(e)[:300])
    for e in g['B']: print(' B', json.dumps(e)[:300])
    open(os.path.join(vlib.OUT,'devp_rej.script'),'w').write("\n".join(x['script'])+"\n")
