import sys, os, random, json, time
sys.path.insert(0, os.path.dirname(__file__))
from vlib import *
from seqcheck import *
kinds = sys.argv[1].split(',') if len(sys.argv) > 1 else KINDS
n = int(sys.argv[2]) if len(sys.argv) > 2 else 40
seed = int(sys.argv[3]) if len(sys.argv) > 3 else 1
strict = sys.argv[4].split(',') if len(sys.argv) > 4 else ALL_TAGS
rng = random.Random(seed)
prof = Profile()
exs = [gen_execution(rng, rng.choice(kinds), prof) for _ in range(n)]
t0 = time.time()
r = run_scripts(exs, strict, os.path.join(OUT, 'dev_%d' % os.getpid()), 'plain')
import shutil; shutil.rmtree(os.path.join(OUT, 'dev_%d' % os.getpid()), ignore_errors=True)
print('execs', r.executions, 'accepted', r.accepted, 'events', r.events, 'rej', len(r.rejections), 'crash', len(r.crashes), 'leaks', len(r.leaks), 'infra', (r.infra or '')[-1500:], 'wall %.1f' % (time.time() - t0))
for j, rej in enumerate(r.rejections[:3]):
    print('--- rejection', j, 'line', rej['line_in_exec'])
    tr = rej['trace']
    i = rej['line_in_exec']
    for ln in tr[max(0, i - 4):i]:
        print(ln)
    open(os.path.join(OUT, 'dev_rej%d.script' % j), 'w').write("\n".join(rej['script']) + "\n")
for c in r.crashes[:2]:
    print('--- crash', c['rc'], c['out'][-800:])
