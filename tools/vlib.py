"""Shared machinery of the libcappuccino verification framework: harness builds, script
generation, execution on the real containers, TLC trace validation, delta debugging and
evidence writing.  See DESIGN.md."""
import fcntl
import hashlib
import json
import os
import random
import re
import shutil
import subprocess
import sys
import threading
import time
from concurrent.futures import ThreadPoolExecutor

VERIF = os.path.dirname(os.path.dirname(os.path.abspath(__file__)))
REPO = os.environ.get("VERIF_REPO", "/repo")
OUT = os.path.join(VERIF, "out")
SPEC = os.path.join(VERIF, "spec")
HARNESS = os.path.join(VERIF, "harness")
JAVA_CP = "/opt/veriftools/tla/tla2tools.jar:/opt/veriftools/tla/CommunityModules-deps.jar"
NPROC = int(os.environ.get("VERIF_JOBS", "14"))

KINDS = ["lru", "mru", "fifo", "lfu", "lfuda", "rr", "tlru", "utlru", "utmap", "utset"]
CACHE_KINDS = KINDS[:8]
TTL_KINDS = ["tlru", "utlru", "utmap", "utset"]
PEEK_KINDS = ["lru", "mru", "tlru", "utlru", "lfu", "lfuda"]
ALL_TAGS = ["C%02d" % i for i in range(1, 21)] + ["SPEC"]
PROP_TAGS = ["C%02d" % i for i in range(1, 21)]


class InfraError(Exception):
    pass


def log(*a):
    print(*a, file=sys.stderr, flush=True)


def sh(cmd, timeout=None, env=None, cwd=None):
    return subprocess.run(cmd, stdout=subprocess.PIPE, stderr=subprocess.STDOUT, timeout=timeout, env=env, cwd=cwd,
                          text=True, errors="replace")


# ------------------------------------------------------------------------------------------
# Harness builds (always from the current working tree of REPO; cached by content hash)

FLAVOURS = {
    "plain": ["-O1", "-g"],
    "asan": ["-O1", "-g", "-fsanitize=address,undefined", "-fno-sanitize-recover=undefined", "-fno-omit-frame-pointer",
             "-D_GLIBCXX_DEBUG", "-D_GLIBCXX_ASSERTIONS"],
    "tsan": ["-O1", "-g", "-fsanitize=thread", "-fno-inline"],
}
BASE_FLAGS = ["-std=c++17", "-Wall", "-Wextra", "-pthread", "-DCAPPUCCINO_VERIF_HOOKS"]


def tree_hash(extra=""):
    h = hashlib.sha256()
    for root in (os.path.join(REPO, "inc"), HARNESS):
        for dp, dn, fn in sorted(os.walk(root)):
            dn.sort()
            for f in sorted(fn):
                p = os.path.join(dp, f)
                h.update(p.encode())
                with open(p, "rb") as fh:
                    h.update(fh.read())
    h.update(extra.encode())
    return h.hexdigest()[:16]


_build_lock = threading.Lock()


def build(flavour="plain", program="exec"):
    """Build harness program (exec | conc) in the given flavour; returns the binary path.
    Serialised within the process and, through a lock file, across processes."""
    os.makedirs(os.path.join(OUT, "build"), exist_ok=True)
    with _build_lock:
        with open(os.path.join(OUT, "build", ".lock"), "w") as lf:
            fcntl.flock(lf, fcntl.LOCK_EX)
            try:
                return _build(flavour, program)
            finally:
                fcntl.flock(lf, fcntl.LOCK_UN)


def _build(flavour, program):
    flags = BASE_FLAGS + FLAVOURS[flavour]
    hh = tree_hash(flavour + " ".join(flags))
    bdir = os.path.join(OUT, "build", hh)
    binp = os.path.join(bdir, program)
    if os.path.exists(binp):
        return binp
    os.makedirs(bdir, exist_ok=True)
    inc = ["-I" + os.path.join(REPO, "inc"), "-I" + HARNESS]
    jobs = []
    objs = []
    for k in KINDS:
        o = os.path.join(bdir, "kind_%s.o" % k)
        objs.append(o)
        if not os.path.exists(o):
            jobs.append(["g++"] + flags + inc + ["-DVH_KIND=" + k, "-c", os.path.join(HARNESS, "kind_tu.cpp"), "-o", o])
    mains = {}
    for prog in ("exec", "conc"):
        src = os.path.join(HARNESS, prog + ".cpp")
        if os.path.exists(src):
            o = os.path.join(bdir, prog + ".o")
            mains[prog] = o
            if not os.path.exists(o):
                jobs.append(["g++"] + flags + inc + ["-c", src, "-o", o])

    def run(cmd):
        r = sh(cmd, timeout=900)
        return (cmd, r.returncode, r.stdout)

    with ThreadPoolExecutor(max_workers=NPROC) as ex:
        for cmd, rc, outp in ex.map(run, jobs):
            if rc != 0:
                shutil.rmtree(bdir, ignore_errors=True)
                raise InfraError("harness build failed (%s):\n%s" % (" ".join(cmd[-4:]), outp[-3000:]))
    for prog, o in mains.items():
        r = sh(["g++"] + flags + ["-o", os.path.join(bdir, prog), o] + objs, timeout=600)
        if r.returncode != 0:
            shutil.rmtree(bdir, ignore_errors=True)
            raise InfraError("harness link failed:\n" + r.stdout[-3000:])
    # keep the cache small: drop all but the 6 most recent build dirs
    root = os.path.join(OUT, "build")
    ds = sorted((os.path.join(root, d) for d in os.listdir(root) if not d.startswith(".")), key=os.path.getmtime,
                reverse=True)
    for d in ds[6:]:
        shutil.rmtree(d, ignore_errors=True)
    return binp


# ------------------------------------------------------------------------------------------
# Script generation.  A script is a list of text lines (inputs only); see harness/exec.cpp.

MLFS = [5, 50, 100, 400, 6400]
RATIOS = [(0, 0), (1, 1), (1, 0), (1, 2), (3, 2)]


class Profile:
    """Weights and shape parameters of the random driver; tuned per property."""

    def __init__(self, **kw):
        self.w = dict(ins=30, era=9, find=14, findc=6, insr=6, erar=3, findr=5, findf=3, tick=10, clean=4, age=5,
                      uttl=3, clear=1, obs=1)
        self.caps = [1, 2, 2, 3, 3, 4, 5]
        self.extra_keys = [1, 2, 3]
        self.nops = (30, 70)
        self.allow_w = [(3, 6), (1, 2), (2, 2)]
        self.ttls = [1, 2, 3, 5, 8, 13]
        self.tlru_ttls = [0, 1, 2, 3, 5, 8, 13, 40]
        self.uttls = [0, 1, 2, 3, 5, 8, 120]
        self.ticks = [1, 2, 3, 4, 5, 8, 12, 20]
        self.max_range = 5
        self.peek_p = 0.4
        self.variants = [0, 0, 0, 1, 2, 3]
        self.flavours = [0, 0, 1]
        self.ts = [0, 1]
        self.vals = (1, 60)
        self.destroy_mid = 0.0
        for k, v in kw.items():
            if k == "w":
                self.w.update(v)
            else:
                setattr(self, k, v)


def wchoice(rng, pairs):
    tot = sum(w for _, w in pairs)
    x = rng.uniform(0, tot)
    for v, w in pairs:
        x -= w
        if x <= 0:
            return v
    return pairs[-1][0]


def gen_cfg(rng, kind, prof):
    cap = rng.choice(prof.caps)
    keys = min(12, cap + rng.choice(prof.extra_keys))
    if kind in ("utmap", "utset"):
        keys = rng.choice([3, 4, 5, 6])
        cap = 0
    ttl = 0
    if kind in ("utlru", "utmap", "utset"):
        ttl = rng.choice(prof.ttls + ([120] if kind == "utmap" else []))
    tick = rng.choice([1, 2, 3, 5])
    rnum, rsh = rng.choice(RATIOS)
    return dict(kind=kind, cap=cap, ts=rng.choice(prof.ts), mlf=rng.choice(MLFS), ttl=ttl, tick=tick, rnum=rnum,
                rsh=rsh, fl=rng.choice(prof.flavours), keys=keys)


R = 4            # clock ticks per ttl unit (harness/vclock.hpp kTicksPerTtlUnit); ttl unit = 1 ms by default
COARSE_US = 262144000   # microseconds per tick of the coarse clock: ttl unit = 2^20 ms (about 17.5 minutes)


def cfg_line(c):
    return "cfg %s %d %d %d %d %d %d %d %d %d %d" % (c["kind"], c["cap"], c["ts"], c["mlf"], c["ttl"], c["tick"], c["rnum"],
                                                       c["rsh"], c["fl"], c["keys"], c.get("us", 250))


def coarsen(script, factor=700):
    """The same execution with every ttl, aging tick and clock step multiplied by `factor` on the
    coarse clock: ttls of weeks to years (beyond 2^31 ms) at the same relative instants."""
    out = []
    for ln in script:
        t = ln.split()
        if t[0] == "cfg":
            t[5] = str(int(t[5]) * factor)
            t[6] = str(int(t[6]) * factor)
            if len(t) > 11:
                t[11] = str(COARSE_US)
            else:
                t.append(str(COARSE_US))
        elif t[0] == "ins":
            t[4] = str(int(t[4]) * factor)
        elif t[0] == "insr":
            n = int(t[3])
            for i in range(n):
                t[4 + 3 * i + 2] = str(int(t[4 + 3 * i + 2]) * factor)
        elif t[0] in ("uttl", "tick"):
            t[1] = str(int(t[1]) * factor)
        out.append(" ".join(t))
    return out


def gen_execution(rng, kind, prof, cfg=None):
    """One execution: a cfg line followed by random calls.  The generator keeps a rough idea of
    deadlines so that clock steps land just before / exactly on / just after them."""
    c = cfg or gen_cfg(rng, kind, prof)
    lines = [cfg_line(c)]
    K = c["keys"]
    now = 0
    cur_ttl = c["ttl"]
    dls = {}      # key -> approximate deadline
    stamps = {}   # lfuda: key -> approximate last use
    w = dict(prof.w)
    if kind not in ("lfu", "lfuda"):
        w["findc"] = 0
    if kind not in TTL_KINDS:
        w["clean"] = 0
    if kind not in TTL_KINDS and kind != "lfuda":
        w["tick"] = 0
    if kind != "lfuda":
        w["age"] = 0
    if kind != "utlru":
        w["uttl"] = 0
    if kind not in ("utlru", "utmap"):
        w["clear"] = 0
    ops = [(k, v) for k, v in w.items() if v > 0]
    n = rng.randint(*prof.nops)
    # bias towards a subset of "hot" keys so slots are recycled and entries tie
    def key():
        return rng.randint(1, K)

    def val():
        return 1 if kind == "utset" else rng.randint(*prof.vals)

    def ttl_arg():
        return rng.choice(prof.tlru_ttls) if kind == "tlru" else 0

    def variant():
        v = rng.choice(prof.variants)
        if v == 3 and kind != "fifo":
            v = 0
        if v == 2 and kind == "tlru":
            v = 1
        return v

    for _ in range(n):
        op = wchoice(rng, ops)
        if op == "ins":
            k = key()
            d = ttl_arg()
            a = wchoice(rng, prof.allow_w)
            lines.append("ins %d %d %d %d" % (k, val(), a, d))
            dls[k] = now + R * (d if kind == "tlru" else cur_ttl)
            stamps[k] = now
        elif op == "insr":
            m = rng.randint(0, prof.max_range)
            a = wchoice(rng, prof.allow_w)
            kv = []
            for _i in range(m):
                k = key()
                d = ttl_arg()
                kv.append("%d %d %d" % (k, val(), d))
                dls[k] = now + R * (d if kind == "tlru" else cur_ttl)
                stamps[k] = now
            lines.append("insr %d %d %d %s" % (a, variant(), m, " ".join(kv)))
        elif op == "era":
            lines.append("era %d" % key())
        elif op == "erar":
            m = rng.randint(0, prof.max_range)
            lines.append("erar %d %d %s" % (variant(), m, " ".join(str(key()) for _i in range(m))))
        elif op == "find":
            k = key()
            p = 1 if (kind in PEEK_KINDS and rng.random() < prof.peek_p) else 0
            lines.append("find %d %d" % (k, p))
            if not p:
                stamps[k] = now
        elif op == "findc":
            k = key()
            p = 1 if rng.random() < prof.peek_p else 0
            lines.append("findc %d %d" % (k, p))
            if not p:
                stamps[k] = now
        elif op in ("findr", "findf"):
            m = rng.randint(0, prof.max_range)
            p = 1 if (kind in PEEK_KINDS and rng.random() < prof.peek_p) else 0
            ks = [key() for _i in range(m)]
            lines.append("%s %d %d %d %s" % (op, p, variant(), m, " ".join(map(str, ks))))
            if not p:
                for k in ks:
                    stamps[k] = now
        elif op == "tick":
            cands = []
            if kind in TTL_KINDS:
                fut = [d for d in dls.values() if d > now]
                if fut and rng.random() < 0.75:
                    d = rng.choice(fut)
                    cands = [d - 1 - now, d - now, d + 1 - now]
            if kind == "lfuda":
                st = [s for s in stamps.values()]
                if st and rng.random() < 0.75:
                    s = rng.choice(st) + R * c["tick"]
                    cands = [s - 1 - now, s - now, s + 1 - now, s + 2 - now]
            cands = [x for x in cands if x >= 1]
            step = rng.choice(cands) if cands else rng.choice(prof.ticks)
            step = min(step, 800)
            now += step
            lines.append("tick %d" % step)
        elif op == "clean":
            lines.append("clean")
        elif op == "age":
            lines.append("age")
        elif op == "uttl":
            cur_ttl = rng.choice(prof.uttls)
            lines.append("uttl %d" % cur_ttl)
        elif op == "clear":
            lines.append("clear")
            dls.clear()
        elif op == "obs":
            lines.append("obs")
    lines.append("destroy")
    return lines


def split_executions(lines):
    """Split a flat list of script or trace lines into executions (each starts with a cfg)."""
    exs = []
    cur = None
    for ln in lines:
        if ln.startswith("cfg ") or ln.startswith('{"e":"cfg"'):
            cur = []
            exs.append(cur)
        if cur is not None:
            cur.append(ln)
    return exs


# ------------------------------------------------------------------------------------------
# Execution on the real containers

SAN_ENV = {
    "ASAN_OPTIONS": "detect_leaks=1:abort_on_error=0:halt_on_error=1:exitcode=66:detect_stack_use_after_return=1",
    "UBSAN_OPTIONS": "print_stacktrace=1:halt_on_error=1:exitcode=67",
    "TSAN_OPTIONS": "halt_on_error=0:exitcode=68:second_deadlock_stack=1",
}


def run_exec(binp, script_lines, workdir, name, timeout=300):
    os.makedirs(workdir, exist_ok=True)
    sp = os.path.join(workdir, name + ".script")
    tp = os.path.join(workdir, name + ".ndjson")
    with open(sp, "w") as f:
        f.write("\n".join(script_lines) + "\n")
    env = dict(os.environ)
    env.update(SAN_ENV)
    try:
        r = sh([binp, sp, tp], timeout=timeout, env=env)
        rc, outp = r.returncode, r.stdout
    except subprocess.TimeoutExpired:
        rc, outp = 124, "TIMEOUT"
    return rc, outp, sp, tp


# ------------------------------------------------------------------------------------------
# The judge: TLC on spec/SeqTrace.tla

_DEPTH_RE = re.compile(r'<<"TRACE-DEPTH", (\d+), (\d+)>>')


def write_tlc_cfg(path, keys, strict):
    with open(path, "w") as f:
        f.write("SPECIFICATION TraceSpec\nCONSTANTS\n")
        f.write("  Keys = {%s}\n" % ",".join(str(i) for i in range(1, keys + 1)))
        f.write("  Strict = {%s}\n" % ",".join('"%s"' % t for t in strict))
        f.write("POSTCONDITION TraceAccepted\nCHECK_DEADLOCK FALSE\n")


def tlc_trace(trace_path, strict, keys, workdir, name, module="SeqTrace", timeout=1800, heap="3g", extra_env=None,
              cfg_writer=None):
    """Validate one ndjson log.  Returns dict(accepted, depth, n, rc, out)."""
    os.makedirs(workdir, exist_ok=True)
    cfgp = os.path.join(workdir, name + ".cfg")
    (cfg_writer or write_tlc_cfg)(cfgp, keys, strict)
    md = os.path.join(workdir, name + ".md")
    shutil.rmtree(md, ignore_errors=True)
    env = dict(os.environ)
    env["TRACE"] = trace_path
    if extra_env:
        env.update(extra_env)
    cmd = ["java", "-Xmx" + heap, "-Xss16m", "-XX:+UseSerialGC", "-XX:TieredStopAtLevel=1", "-cp", JAVA_CP, "tlc2.TLC", "-noGenerateSpecTE",
           "-workers", "1", "-metadir", md, "-config", cfgp, os.path.join(SPEC, module + ".tla")]
    try:
        r = sh(cmd, timeout=timeout, env=env, cwd=SPEC)
        rc, outp = r.returncode, r.stdout
    except subprocess.TimeoutExpired:
        rc, outp = 124, "TIMEOUT"
    shutil.rmtree(md, ignore_errors=True)
    m = _DEPTH_RE.search(outp)
    res = dict(rc=rc, out=outp, accepted=False, depth=None, n=None)
    if m:
        res["depth"], res["n"] = int(m.group(1)), int(m.group(2))
        res["accepted"] = (res["depth"] - 1 == res["n"]) and rc == 0
    st = re.search(r"(\d+) states generated, (\d+) distinct states found", outp)
    if st:
        res["states_generated"], res["states"] = int(st.group(1)), int(st.group(2))
    if not m:
        res["infra"] = True
    return res


def max_keys(trace_lines):
    k = 1
    for ln in trace_lines:
        if ln.startswith('{"e":"cfg"'):
            k = max(k, json.loads(ln)["keys"])
    return k


def judge_batch(trace_lines, strict, workdir, name):
    """Judge a concatenation of executions.  Returns (accepted_execs, rejections, events, infra)
    where rejections is a list of dict(exec_index, line_in_exec, trace_lines_of_exec)."""
    exs = split_executions(trace_lines)
    keys = max_keys(trace_lines)
    rejections = []
    accepted = 0
    events = 0
    start = 0
    rnd = 0
    while start < len(exs):
        part = exs[start:]
        flat = [ln for e in part for ln in e]
        tp = os.path.join(workdir, "%s.part%d.ndjson" % (name, rnd))
        with open(tp, "w") as f:
            f.write("\n".join(flat) + "\n")
        res = tlc_trace(tp, strict, keys, workdir, "%s.part%d" % (name, rnd))
        rnd += 1
        if res.get("infra"):
            return accepted, rejections, events, res["out"][-3000:]
        if res["accepted"]:
            accepted += len(part)
            events += len(flat)
            os.remove(tp)
            break
        # first line without a matching step: index depth (1-based) in flat
        bad = res["depth"]
        pos = 0
        for i, e in enumerate(part):
            if bad <= pos + len(e):
                rejections.append(dict(exec_index=start + i, line_in_exec=bad - pos, trace=e))
                accepted += i
                events += pos
                start = start + i + 1
                break
            pos += len(e)
        else:
            return accepted, rejections, events, "depth beyond trace: " + res["out"][-2000:]
        os.remove(tp)
    return accepted, rejections, events, None


# ------------------------------------------------------------------------------------------
# Scale batch: the same judge at scopes far beyond what TLC can enumerate.  A handful of executions
# per check: big capacities, long histories on a few hot keys, mass expiry, long ranges.

DETERMINISTIC_RANGE_KINDS = ["lru", "mru", "fifo", "utmap", "utset"]   # a victim the judge need not search for


def _scale_cfg(rng, kind, cap, keys, ttl=0, tick=3):
    return dict(kind=kind, cap=0 if kind in ("utmap", "utset") else cap, ts=rng.choice([0, 1]), mlf=rng.choice(MLFS),
                ttl=ttl, tick=tick, rnum=1, rsh=1, fl=rng.choice([0, 1]), keys=keys)


def scale_big_capacity(rng, kind, cap):
    """fill a big cache, then keep inserting new keys (evictions), with lookups / erases in between"""
    keys = cap + 8
    ttl = 4000
    c = _scale_cfg(rng, kind, cap, keys, ttl=ttl)
    lines = [cfg_line(c)]
    order = list(range(1, keys + 1))
    rng.shuffle(order)
    for k in order[:cap]:
        lines.append("ins %d %d 3 %d" % (k, rng.randint(1, 90), ttl))
    if kind == "lfuda":
        lines.append("tick 20")     # every entry is idle for longer than the aging tick at the first eviction
    fresh = order[cap:]
    for i in range(40):
        r = rng.random()
        k = rng.randint(1, keys)
        if i % 5 == 0 and fresh:
            lines.append("ins %d %d 3 %d" % (fresh.pop(), rng.randint(1, 90), ttl))     # a new key: an eviction
        elif r < 0.6:
            lines.append("ins %d %d 3 %d" % (k, rng.randint(1, 90), ttl))
        elif r < 0.8:
            lines.append("find %d %d" % (k, rng.choice([0, 1]) if kind in PEEK_KINDS else 0))
        else:
            lines.append("era %d" % k)
    lines.append("destroy")
    return lines


def scale_hot_keys(rng, kind, nops=1400):
    """three slots, five keys, a long lookup-heavy history: use counts in the hundreds, hundreds of
    misses and rejected inserts on a full cache, long gaps between two uses of one key"""
    c = _scale_cfg(rng, kind, 3, 5, ttl=100000, tick=50)
    lines = [cfg_line(c)]
    for k in (1, 2, 3):
        lines.append("ins %d %d 3 100000" % (k, k))
    hot = rng.choice([1, 2, 3])
    for i in range(nops):
        r = rng.random()
        if r < 0.55:
            lines.append("find %d 0" % hot)
        elif r < 0.75:
            lines.append("find %d %d" % (rng.choice([4, 5]), rng.choice([0, 1]) if kind in PEEK_KINDS else 0))   # mostly misses
        elif r < 0.85:
            lines.append("ins %d 9 1 100000" % rng.choice([1, 2, 3]))      # rejected insert-only
        elif r < 0.9:
            lines.append("ins %d 9 2 100000" % rng.choice([4, 5]))         # rejected update-only (unless resident)
        elif r < 0.96:
            lines.append("find %d 0" % rng.choice([1, 2, 3]))
        elif kind in ("lfu", "lfuda"):
            lines.append("findc %d 1" % hot)
        else:
            lines.append("era 5")
        if i % 300 == 299:
            lines.append("ins %d 7 3 100000" % rng.choice([4, 5]))         # an eviction now and then
    lines += ["ins 4 7 3 100000", "ins 5 7 3 100000", "destroy"]
    return lines


def scale_mass_expiry(rng, kind, n, both):
    """n entries written with one short ttl in two waves, the clock moves past the first wave's (or both
    waves') deadline, then single calls - first of all a lookup of the entry at the far end of the
    expiry order, so that a clean-up that stops early is seen by the call itself"""
    keys = n + 4
    ttl = 3
    c = _scale_cfg(rng, kind, n + 2, keys, ttl=ttl)
    lines = [cfg_line(c)]
    n1 = (2 * n) // 3
    for k in range(1, n1 + 1):
        lines.append("ins %d %d 3 %d" % (k, 1 if kind == "utset" else rng.randint(1, 90), ttl))
    lines.append("tick %d" % (R * ttl - 4))
    for k in range(n1 + 1, n + 1):
        lines.append("ins %d %d 3 %d" % (k, 1 if kind == "utset" else rng.randint(1, 90), ttl))
    lines.append("tick %d" % ((R * ttl) if both else 4 + rng.choice([0, 1])))
    last_dead = n if both else n1
    tail = ["find %d 0" % last_dead, "find %d 0" % n, "findr 0 0 3 %d %d %d" % (last_dead, 1, n)]
    tail += rng.choice([["clean"], ["ins %d 5 3 %d" % (n + 2, ttl), "clean"], ["era %d" % rng.randint(1, n), "clean"]])
    lines += tail + ["find %d 0" % n, "obs", "clean", "destroy"]
    return lines


def scale_long_ranges(rng, kind, cap=85):
    """ranges of 20-70 elements with duplicates, every allow mode and argument container, while the cache
    still has room (80 distinct keys, capacity 85: no victim has to be guessed inside a range, whatever the
    slice); then fresh single inserts until 20 entries have been evicted, which reveals the order the
    ranges left behind"""
    keys = 105
    c = _scale_cfg(rng, kind, cap, keys, ttl=4000)
    lines = [cfg_line(c)]
    plan = [(3, 0, 70), (1, 0, 35), (2, 0, 70), (3, 1, 35), (3, 3 if kind == "fifo" else 0, 35)]
    rng.shuffle(plan)
    plan = [(1, 0, 70)] + plan          # first a big batch of new keys in a random-access container
    for a, var, m in plan:
        ks = [rng.randint(1, 80) for _i in range(m)]
        lines.append("insr %d %d %d %s" % (a, var, m, " ".join("%d %d 4000" % (k, 1 if kind == "utset" else rng.randint(1, 90))
                                                            for k in ks)))
        ks2 = [rng.randint(1, 80) for _i in range(rng.choice([20, 40]))]
        p = rng.choice([0, 1]) if kind in PEEK_KINDS else 0
        lines.append("%s %d %d %d %s" % (rng.choice(["findr", "findf"]), p, 0, len(ks2), " ".join(map(str, ks2))))
        if rng.random() < 0.4:
            ks3 = [rng.randint(1, 80) for _i in range(20)]
            lines.append("erar 0 %d %s" % (len(ks3), " ".join(map(str, ks3))))
    for k in range(1, 81):            # make sure all 80 are resident (insert-only: no reordering of those that are)
        lines.append("ins %d 2 1 4000" % k)
    for k in range(81, 106):
        lines.append("ins %d 3 3 4000" % k)
    lines.append("destroy")
    return lines


def scale_sparse_clear(rng, kind):
    """clear() of a big, almost empty container, then use it again"""
    cap = rng.choice([64, 128])
    c = _scale_cfg(rng, kind, cap, 12, ttl=4000)
    lines = [cfg_line(c)]
    n = rng.choice([2, 3, 5, 7])
    for k in range(1, n + 1):
        lines.append("ins %d %d 3 0" % (k, k))
    lines += ["era 1", "ins 1 9 3 0"] if rng.random() < 0.5 else []
    lines += ["clear", "obs"]
    for k in range(3, 12):
        lines.append("ins %d %d 3 0" % (k, k + 20))
    lines += ["clear", "ins 2 5 3 0", "find 2 0", "destroy"]
    return lines


def scale_counter_wrap(rng, kind, gaps):
    """exactly m uses of other entries between two uses of one entry, for m around powers of two (a
    narrow counter or stamp that wraps), each time followed by an eviction that shows who is where"""
    c = _scale_cfg(rng, kind, 3, 6, ttl=100000, tick=100000)
    lines = [cfg_line(c), "ins 1 1 3 100000", "ins 2 2 3 100000", "ins 3 3 3 100000"]
    fresh = 4
    for m in gaps:
        lines.append("find 1 0")
        for i in range(m):
            lines.append("find %d 0" % (2 if i % 2 else 3) if i % 7 else "ins %d 5 3 100000" % (2 if i % 2 else 3))
        lines.append("find 1 0")
        lines.append("ins %d 9 3 100000" % fresh)          # new key into the full cache
        lines.append("era %d" % fresh)
        # restore the three residents (whoever was evicted comes back)
        for k in (1, 2, 3):
            lines.append("ins %d %d 3 100000" % (k, k))
        fresh = 4 + (fresh - 3) % 3
    lines.append("destroy")
    return lines


def scale_batch(rng, kinds, tier):
    """executions of the scale batch for the given kinds (a few per kind in the quick tier)"""
    out = []
    reps = 1 if tier == "quick" else 2
    for kind in kinds:
        for _ in range(reps):
            if kind in CACHE_KINDS:
                out.append(scale_big_capacity(rng, kind, rng.choice([130, 140] if tier == "quick" else [130, 170, 200])))
            out.append(scale_hot_keys(rng, kind, 1400 if tier == "quick" else 2500))
            if kind in CACHE_KINDS:
                out.append(scale_counter_wrap(rng, kind, [255, 256, 257, 512] if tier == "quick" else
                                              [127, 128, 255, 256, 257, 511, 512, 1024]))
            if kind in TTL_KINDS:
                big = 270 if kind in ("utmap", "utset") else 140      # beyond any batching threshold up to 256
                for both in (True, False):      # both waves expired / only the first one
                    out.append(scale_mass_expiry(rng, kind, big if tier == "quick" else rng.choice([140, 270, 300]), both))
            if kind in DETERMINISTIC_RANGE_KINDS:
                out.append(scale_long_ranges(rng, kind))
            if kind in ("utlru", "utmap"):
                out.append(scale_sparse_clear(rng, kind))
    return out
