"""Collect matrix logs into seeded/RESULTS.json and print the markdown table for DESIGN.md 0.5."""
import ast, glob, json, os, re, sys
V = os.path.dirname(os.path.dirname(os.path.abspath(__file__)))
res = {}
for f in sorted(glob.glob(os.path.join(V, 'out', 'matrix*.log')), key=os.path.getmtime):
    for ln in open(f):
        m = re.match(r'(\S+) (C\d+) (DETECTED|MISSED|ERR)', ln)
        if not m:
            continue
        i, p, verdict = m.groups()
        w = re.search(r"'wall': (\d+)", ln)
        res.setdefault(i, {})[p] = dict(verdict=verdict, wall_s=int(w.group(1)) if w else None)
json.dump(res, open(os.path.join(V, 'seeded', 'RESULTS.json'), 'w'), indent=1, sort_keys=True)
rows = []
for i in sorted(os.listdir(os.path.join(V, 'seeded'))):
    mp = os.path.join(V, 'seeded', i, 'meta.json')
    if not os.path.exists(mp):
        continue
    meta = json.load(open(mp))
    r = res.get(i, {})
    det = [p for p, x in sorted(r.items()) if x['verdict'] == 'DETECTED']
    mis = [p for p, x in sorted(r.items()) if x['verdict'] == 'MISSED']
    rows.append('| %s | %s | %s | %s | %s | %s |' % (i, meta['property'], meta.get('container', ''), meta['summary'][:110].replace('|', '/'),
                                                  ', '.join(det) or '-', ', '.join(mis) or '-'))
print('| id | targets | container | change | caught by (quick) | run but silent |\n|---|---|---|---|---|---|')
print('\n'.join(rows))
