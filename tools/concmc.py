"""TLC on spec/Conc.tla: linearizability and lock-protocol race freedom of small thread programs
at the design level, and enumeration of every complete schedule for replay on real threads."""
import json
import os
import re
import shutil
import subprocess
import time
from concurrent.futures import ThreadPoolExecutor

from vlib import JAVA_CP, SPEC, sh, log

_ST = re.compile(r"(\d+) states generated, (\d+) distinct states found")


def write_cfg(path, kind, threads, calls, cap, pinned, emit, invs):
    with open(path, "w") as f:
        f.write("SPECIFICATION CSpec\nCONSTANTS\n  Keys = {1,2}\n  Strict = {}\n  CKind = \"%s\"\n" % kind)
        f.write("  Threads = {%s}\n  CallsPer = %d\n  CCap = %d\n" % (",".join(str(i) for i in range(1, threads + 1)), calls, cap))
        f.write("  Pinned = %s\n  Emit = %s\n" % ("TRUE" if pinned else "FALSE", "TRUE" if emit else "FALSE"))
        f.write("INVARIANTS %s\nACTION_CONSTRAINT EmitDone\nCHECK_DEADLOCK FALSE\n" % " ".join(invs))


def plan(tier):
    runs = []
    for kind in ("lru", "fifo", "tlru", "utlru", "utmap"):
        cap = 0 if kind == "utmap" else 1
        runs.append(dict(kind=kind, threads=2, calls=1, cap=cap, pinned=False, emit=True, invs=["NoRace", "Linearizable"]))
    runs.append(dict(kind="lru", threads=3, calls=1, cap=2, pinned=False, emit=True, invs=["NoRace", "Linearizable"]))
    runs.append(dict(kind="utlru", threads=3, calls=1, cap=2, pinned=False, emit=(tier == "thorough"),
                     invs=["NoRace", "Linearizable"]))
    # regression evidence: the pre-repair protocol must still produce its counterexamples
    runs.append(dict(kind="utlru", threads=2, calls=1, cap=2, pinned=True, emit=False, invs=["NoRace"], expect=True))
    runs.append(dict(kind="tlru", threads=2, calls=1, cap=2, pinned=True, emit=False, invs=["Linearizable"], expect=True))
    if tier == "thorough":
        runs.append(dict(kind="lru", threads=2, calls=2, cap=1, pinned=False, emit=False, invs=["NoRace", "Linearizable"],
                         timeout=2400))
        runs.append(dict(kind="utlru", threads=2, calls=2, cap=1, pinned=False, emit=False,
                         invs=["NoRace", "Linearizable"], timeout=2400))
        runs.append(dict(kind="utlru", threads=2, calls=2, cap=2, pinned=True, emit=False, invs=["Linearizable"],
                         expect=True, timeout=2400))
    return runs


def run(tier, wd):
    os.makedirs(wd, exist_ok=True)
    res = dict(states=0, transitions=0, runs=[], schedules=[])

    def one(i_r):
        i, r = i_r
        cfgp = os.path.join(wd, "c%d.cfg" % i)
        write_cfg(cfgp, r["kind"], r["threads"], r["calls"], r["cap"], r["pinned"], r["emit"], r["invs"])
        md = os.path.join(wd, "c%d.md" % i)
        outp = os.path.join(wd, "c%d.out" % i)
        cmd = ["java", "-Xmx8g", "-XX:+UseParallelGC", "-cp", JAVA_CP, "tlc2.TLC", "-noGenerateSpecTE", "-workers", "4", "-metadir", md,
               "-config", cfgp, os.path.join(SPEC, "Conc.tla")]
        t0 = time.time()
        try:
            with open(outp, "w") as fo:
                p = subprocess.run(cmd, stdout=fo, stderr=subprocess.STDOUT, timeout=r.get("timeout", 300), cwd=SPEC)
            rc = p.returncode
        except subprocess.TimeoutExpired:
            rc = 124
        shutil.rmtree(md, ignore_errors=True)
        scheds = []
        text = []
        with open(outp, errors="replace") as f:
            for ln in f:
                if ln.startswith('<<"SCHED", '):
                    try:
                        scheds.append(json.loads(json.loads(ln.rstrip()[len('<<"SCHED", '):-2])))
                    except ValueError:
                        pass
                else:
                    text.append(ln)
        os.remove(outp)
        text = "".join(text)
        return i, r, rc, text, scheds, time.time() - t0

    with ThreadPoolExecutor(max_workers=4) as ex:
        outs = list(ex.map(one, enumerate(plan(tier))))
    for i, r, rc, text, scheds, wall in outs:
        m = _ST.search(text)
        run_ = dict(kind=r["kind"], threads=r["threads"], calls_per_thread=r["calls"], cap=r["cap"], pinned=r["pinned"],
                    invariants=r["invs"], wall_s=round(wall, 1), rc=rc, schedules=len(scheds))
        if m:
            run_["transitions"], run_["states"] = int(m.group(1)), int(m.group(2))
        violated = "is violated" in text
        complete = "No error has been found" in text
        run_["violated"] = violated
        run_["complete"] = complete
        res["runs"].append(run_)
        if r.get("expect"):
            if not violated:
                res["infra"] = "Conc.tla with Pinned=TRUE (%s) no longer yields its counterexample:\n%s" % (r["kind"], text[-1500:])
            continue
        if violated:
            res["infra"] = "Conc.tla (%s, repaired protocol) violates %s:\n%s" % (r["kind"], r["invs"], text[-2500:])
        elif not complete and rc != 124:
            res["infra"] = "TLC failed on Conc.tla (%s):\n%s" % (r["kind"], text[-2500:])
        if m:
            res["states"] += run_["states"]
            res["transitions"] += run_["transitions"]
        for s in scheds:
            res["schedules"].append((r, s))
    return res


def _call_line(c, kind):
    op = c["op"]
    if op == "ins":
        return "ins %d %d %d %d" % (c["k"], c["v"], c["a"], c["d"])
    if op == "era":
        return "era %d" % c["k"]
    if op == "find":
        return "find %d 0" % c["k"]
    if op == "insr":
        return "insr 3 0 %d %s" % (len(c["ks"]), " ".join("%d %d %d" % (k, c["v"], c["d"]) for k in c["ks"]))
    if op == "findr":
        return "findr 0 0 %d %s" % (len(c["ks"]), " ".join(str(k) for k in c["ks"]))
    if op == "uttl":
        return "uttl %d" % c["d"]
    return op


def model_cases(mc, rng, limit=6000):
    """(program, schedule) pairs for harness/conc.cpp from the complete behaviours TLC printed."""
    cases = []
    scheds = mc.get("schedules", [])
    if len(scheds) > limit:
        scheds = rng.sample(scheds, limit)
    for r, s in scheds:
        kind = r["kind"]
        prog = s["prog"]
        thr = [[_call_line(c, kind) for c in calls] for calls in prog]
        steps = []
        for h in s["hist"]:
            steps.append(("I%d" if h[0] == "inv" else "C%d") % (h[1] - 1))
        cfg = dict(kind=kind, cap=r["cap"], ts=1, mlf=100, ttl=5 if kind in ("utlru", "utmap", "utset") else 0, tick=2,
                   rnum=1, rsh=1, fl=0, keys=2)
        post = ["tick 4", "obs", "tick 4", "obs", "tick 11", "obs", "tick 1", "obs"] if kind in ("tlru", "utlru", "utmap") else []
        cases.append((dict(cfg=cfg, pre=[], thr=thr, post=post), " ".join(steps)))
    return cases
