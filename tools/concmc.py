"""TLC on spec/Conc.tla (placeholder until the module lands)."""
def run(tier, wd):
    return dict(states=0, transitions=0, runs=[])
def model_cases(mc, rng):
    return []
