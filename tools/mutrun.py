"""Dev tool: run a command against scratch copies of the library with a seeded patch applied.
   mutrun.py <patchdir-root> <id,id,...|all> -- <command...>   (command sees VERIF_REPO)"""
import os, shutil, subprocess, sys, json
from concurrent.futures import ThreadPoolExecutor
root = sys.argv[1]; ids = sys.argv[2]; cmd = sys.argv[sys.argv.index('--') + 1:]
ids = sorted(os.listdir(root)) if ids == 'all' else ids.split(',')
def one(i):
    d = '/tmp/vrepo/' + i
    shutil.rmtree(d, ignore_errors=True); os.makedirs(d)
    shutil.copytree('/repo/inc', d + '/inc')
    p = subprocess.run(['patch', '-p1', '-s', '-i', os.path.join(root, i, 'patch.diff')], cwd=d, capture_output=True, text=True)
    if p.returncode != 0:
        return i, 'PATCH-FAIL ' + p.stdout + p.stderr
    env = dict(os.environ, VERIF_REPO=d, VERIF_JOBS=os.environ.get('VERIF_JOBS', '4'))
    r = subprocess.run(cmd, env=env, capture_output=True, text=True)
    shutil.rmtree(d, ignore_errors=True)
    return i, (r.stdout + r.stderr)
with ThreadPoolExecutor(max_workers=int(os.environ.get('MUT_PAR', '4'))) as ex:
    for i, out in ex.map(one, ids):
        print('=====', i); print(out[-int(os.environ.get('MUT_TAIL', '600')):])
