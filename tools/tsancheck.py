def check(tier):
    print("not implemented"); return 2
def replay(meta, script, path):
    return 2
