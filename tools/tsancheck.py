"""C07: data-race freedom.  In-family part: lock protocol (spec/Conc.tla NoRace; every public call
shows a critical section in the scheduler logs).  Sensor part: ThreadSanitizer on free-running
threads, one block per unordered pair of public methods plus a mixed background thread."""
import json
import os
import random
import re
import shutil
import subprocess
import time
from concurrent.futures import ThreadPoolExecutor

import vlib
from vlib import KINDS, NPROC, OUT, build, cfg_line, log, sh
import conccheck
import concmc

# capacity() of the vector-backed containers reads state that never changes after construction
LOCKLESS_OK = {(k, "capacity") for k in ("lru", "mru", "rr", "tlru", "utlru")}

PUBLIC = {"ins": "insert", "insr": "insert_range", "era": "erase", "erar": "erase_range", "find": "find",
          "findc": "find_with_use_count", "findr": "find_range", "findf": "find_range_fill", "clean": "clean_expired_values",
          "age": "dynamically_age", "uttl": "update_ttl", "clear": "clear", "size": "size", "empty": "empty",
          "capacity": "capacity"}


def pair_block(kind, a, b, seed, calls):
    cap = 0 if kind in ("utmap", "utset") else 3
    cfg = dict(kind=kind, cap=cap, ts=1, mlf=100, ttl=100000, tick=2, rnum=1, rsh=1, fl=seed % 2, keys=4)
    return [cfg_line(cfg), "pre ins 1 5 3 100000", "pre ins 2 6 3 100000", "threads 3", "calls %d" % calls,
            "seed %d" % seed, "record 0", "keys 4", "rounds 1", "method 0 %s" % a, "method 1 %s" % b, "end"]


_REPORT = re.compile(r"WARNING: ThreadSanitizer: data race.*?={18}", re.S)
_FRAME = re.compile(r"#\d+ (.+?) (?:/\S+?:\d+|<null>) \(")


def _lib_frame(fn):
    # the adapter is a thin forwarding wrapper around the container (the library call may be inlined into it)
    return "cappuccino::" in fn or "vh::Adapter<" in fn


def parse_reports(text):
    """Returns list of dict(methods=[m1, m2], in_library=bool, text)."""
    out = []
    for m in _REPORT.finditer(text):
        rep = m.group(0)
        parts = re.split(r"\n\s*\n", rep)
        stacks = []
        for part in parts:
            if re.search(r"(Write|Read|Previous write|Previous read|Atomic|Previous atomic).* of size", part):
                stacks.append(_FRAME.findall(part))
        stacks = stacks[:2]
        meths = []
        inlib = []
        for st in stacks:
            lib = [f for f in st if _lib_frame(f)]
            inlib.append(bool(lib))
            name = None
            for f in lib:
                mm = re.search(r"cappuccino::\w+<.*?>::(\w+)\(", f) or re.search(r"vh::Adapter<.*?>::(\w+)\(", f)
                if mm and not mm.group(1).startswith("do_") and mm.group(1) not in ("lock", "unlock"):
                    name = mm.group(1)
            meths.append(name or "?")
        out.append(dict(methods=meths, in_library=len(inlib) == 2 and all(inlib), text=rep[:3000]))
    return out


def run_blocks(binp, blocks, wd, name, timeout=900):
    pp = os.path.join(wd, name + ".prog")
    with open(pp, "w") as f:
        for b in blocks:
            f.write("\n".join(b) + "\n")
    env = dict(os.environ)
    env["TSAN_OPTIONS"] = "halt_on_error=0:exitcode=68:report_signal_unsafe=0:history_size=4"
    p = subprocess.Popen([binp, "free", pp, os.path.join(wd, name + ".log")], stdout=subprocess.PIPE,
                         stderr=subprocess.STDOUT, text=True, errors="replace", env=env)
    try:
        outp, _ = p.communicate(timeout=timeout)
        return p.returncode, outp
    except subprocess.TimeoutExpired:
        p.kill()
        outp, _ = p.communicate()
        return 124, (outp or "") + "\nTIMEOUT"


def check(tier):
    from runner import write_evidence, write_replay, seed_of, load_known
    seed = seed_of()
    t0 = time.time()
    rng = random.Random(seed * 31 + 7)
    wd = os.path.join(OUT, "run_C07_%s_%d" % (tier, os.getpid()))
    shutil.rmtree(wd, ignore_errors=True)
    os.makedirs(wd)
    infra = None
    viol = []
    known = []

    # (a) design level: NoRace over the lock protocol table
    mc = concmc.run("quick", os.path.join(wd, "mc"))
    if mc.get("infra"):
        infra = mc["infra"]

    # (b) protocol validation on scheduler logs: every call runs inside a critical section
    cases = []
    reps = 1 if tier == "quick" else 6
    for kind in KINDS:
        for op in conccheck.METHODS[kind]:
            peeks = [0, 1] if (kind in vlib.PEEK_KINDS and op in ("find", "findc", "findr", "findf")) else [None]
            for pk in peeks:
                for _ in range(reps):
                    prog = conccheck.gen_program(rng, kind, 2, 1)
                    prog["thr"][0][0] = conccheck.gen_call(rng, kind, prog["cfg"]["keys"], op, pk)
                    cases.append((prog, conccheck.schedules_for(rng, prog, 1)[0]))
    sr = conccheck.run_sched_batch(cases, os.path.join(wd, "sched"), "p")
    if sr["infra"]:
        infra = sr["infra"]
    nolock = []
    for prog, sched, ids in sr["nolock"]:
        for cid in ids:
            t, c = map(int, cid.split("."))
            op = prog["thr"][t][c].split()[0]
            if (prog["cfg"]["kind"], op) in LOCKLESS_OK:
                continue
            nolock.append((prog, sched, op))
    seen = set()
    for prog, sched, op in nolock:
        key = (prog["cfg"]["kind"], op)
        if key in seen:
            continue
        seen.add(key)
        p = conccheck.write_conc_replay("C07", prog, sched)
        log("C07: %s::%s executed without taking the container lock" % (key[0], PUBLIC.get(op, op)))
        viol.append("VIOLATION property=C07 replay=%s" % p)

    # (c) sensor: ThreadSanitizer, every unordered pair of public methods
    binp = build("tsan", "conc")
    calls = 250 if tier == "quick" else 6000
    jobs = []
    npairs = 0
    for kind in KINDS:
        m = conccheck.METHODS[kind]
        blocks = []
        for i, a in enumerate(m):
            for b in m[i:]:
                blocks.append(((a, b), pair_block(kind, a, b, seed + npairs, calls)))
                npairs += 1
        if kind == "rr":
            # long enough for anything that only happens every thousandth eviction
            blk = pair_block(kind, "ins", "ins", seed + 7, 8000 if tier == "quick" else 30000)
            blk = [x.replace("keys 4", "keys 9") for x in blk]
            blk[0] = blk[0].replace(" 4 250", " 9 250") if blk[0].endswith(" 4 250") else blk[0]
            blocks.append((("ins", "ins"), blk))
            npairs += 1
        # split per kind into a few processes
        n = 3 if tier == "quick" else 8
        for j in range(n):
            part = blocks[j::n]
            if part:
                jobs.append((kind, j, part))

    def work(job):
        kind, j, part = job
        rc, outp = run_blocks(binp, [b for _, b in part], wd, "t_%s_%d" % (kind, j))
        return kind, part, rc, outp

    races = {}
    other_reports = 0
    with ThreadPoolExecutor(max_workers=NPROC) as ex:
        for kind, part, rc, outp in ex.map(work, jobs):
            reps = parse_reports(outp)
            if rc not in (0, 68) and not any(r["in_library"] for r in reps):
                infra = "tsan run failed rc=%s with no race report: %s" % (rc, outp[-1500:])
                continue
            for rep in reps:
                if not rep["in_library"]:
                    other_reports += 1
                    continue
                key = (kind,) + tuple(sorted(rep["methods"]))
                races.setdefault(key, rep)
    for key, rep in sorted(races.items()):
        kind, m1, m2 = key
        # re-run the pair alone for the replay file
        ADAPTER = {"insert": "ins", "insert_range": "insr", "erase": "era", "erase_range": "erar", "find": "find",
                   "find_wc": "findc", "find_range": "findr", "find_range_fill": "findf", "clean": "clean", "age": "age",
                   "update_ttl": "uttl", "clear": "clear", "size": "size", "empty": "empty", "capacity": "capacity"}
        ops = [o for o, pub in PUBLIC.items() if pub in (m1, m2)] or [ADAPTER[x] for x in (m1, m2) if x in ADAPTER]
        a = ops[0] if ops else "ins"
        b = ops[-1] if ops else "size"
        blk = pair_block(kind, a, b, seed, calls)
        p = write_replay("C07", blk, [], "tsan")
        log("C07: data race %s: %s vs %s\n%s" % (kind, m1, m2, rep["text"][:1500]))
        viol.append("VIOLATION property=C07 replay=%s" % p)

    wall = time.time() - t0
    cov = dict(explanation="lock protocol model-checked (Conc.tla NoRace, %s states); %d scheduler logs checked for a critical "
                           "section per call; ThreadSanitizer build of the free-running driver: %d method pairs x %d calls "
                           "per thread x 3 threads over the ten containers, %d library races, %d reports outside the library "
                           "ignored" % (mc.get("states"), sr["judged"], npairs, calls, len(races), other_reports),
               evaluations=npairs, distinct_nontrivial=npairs,
               rule="one block per unordered pair of public methods (self pairs included) per container: thread 0 hammers "
                    "method A, thread 1 method B, thread 2 a mixed load, all on one object; a pair is non-trivial because "
                    "both methods run concurrently on the same container",
               samples=[pair_block("lru", "size", "ins", seed, calls)], states=mc.get("states", 0),
               transitions=mc.get("transitions", 0), traces_validated_against_impl=sr["judged"],
               calls_without_critical_section=len(nolock), races=len(races), method_pairs=npairs,
               model_checking=mc.get("runs"))
    if infra:
        cov["infra"] = infra[-800:]
    write_evidence("C07", tier, seed, "other", cov,
                   ["ThreadSanitizer (happens-before race detector) as the observer", "TLC for the protocol table",
                    "a race that needs an interleaving TSan's vector clocks never see in these runs stays invisible"],
                   wall, len(viol))
    for ln in known:
        print(ln)
    for ln in viol:
        print(ln)
    if not os.environ.get("VERIF_KEEP"):
        shutil.rmtree(wd, ignore_errors=True)
    if viol:
        return 1
    if infra:
        print("INFRA: " + infra[-1500:])
        return 2
    print("OK C07 %s: %d method pairs under TSan, 0 races; %d scheduler logs, every call locked; mc states=%s; %.1fs" %
          (tier, npairs, sr["judged"], mc.get("states"), wall))
    return 0


def replay(meta, script, path):
    binp = build("tsan", "conc")
    wd = os.path.join(OUT, "replay_%d" % os.getpid())
    os.makedirs(wd, exist_ok=True)
    rc, outp = run_blocks(binp, [script], wd, "r")
    shutil.rmtree(wd, ignore_errors=True)
    reps = [r for r in parse_reports(outp) if r["in_library"]]
    if reps:
        print("replay: ThreadSanitizer reports a data race in the library: %s" % reps[0]["methods"])
        print(reps[0]["text"][:2500])
        print("VIOLATION property=C07 replay=%s" % path)
        return 1
    if rc not in (0, 68):
        print("replay: infrastructure failure rc=%s %s" % (rc, outp[-800:]))
        return 2
    print("replay: no race reported")
    return 0
