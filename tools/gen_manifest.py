import json, os, subprocess
V = os.path.dirname(os.path.dirname(os.path.abspath(__file__)))
props = [json.loads(l) for l in open(os.path.join(V, 'properties.jsonl'))]
hook = subprocess.run(['git', '-C', '/repo', 'log', '--format=%h', '--grep', 'verif hooks', '-1'], capture_output=True, text=True).stdout.strip()
tech = {
 'seq': 'TLA+ operational spec (Cappuccino.tla) model-checked with TLC against declarative ghost-history properties; trace validation of the real containers (random + model-derived call sequences, virtual clock) against the property slice of the spec (SeqTrace.tla)',
 'pair': ' plus the literal two-run differential judged by PairTrace.tla',
 'C06': 'TLC enumeration of thread schedules (Conc.tla) replayed on real threads by a deterministic scheduler on guarded lock hooks; logs sequentialised at critical-section order and validated against the TLA+ spec (SeqTrace.tla); free-running recorded runs validated the same way',
 'C07': 'lock-protocol model (Conc.tla NoRace) + trace validation that every public call executes a critical section; ThreadSanitizer as the race sensor over every pair of public methods on free-running threads',
 'C08': 'TLC on implementation-shaped TLA+ modules (slot/partition/back-pointer invariants); model-derived and random call sequences executed under ASan+UBSan+libstdc++ debug mode with an instance-counted canary value type',
}
claimed = os.environ.get('CLAIMED', '').split(',') if os.environ.get('CLAIMED') else [p['id'] for p in props]
checks = []
na = []
for p in props:
    i = p['id']
    if i not in claimed:
        na.append(dict(property_id=i, reason='check not yet registered in this round (under construction)'))
        continue
    if i == 'C06':
        t = tech['C06']; lvl = 'model_checking'
        note = 'trusted: TLC, the deterministic scheduler (one runnable thread at a time, schedules at critical-section granularity), linearization points are critical sections of the container mutex, clock constant while calls overlap'
        text = 'Bounded-exhaustive schedules of small thread programs replayed on the real containers and judged by the TLA+ spec: decides linearizability/atomic ranges for every interleaving at lock granularity within the bounds; free-running threads add real interleavings.'
    elif i == 'C07':
        t = tech['C07']; lvl = 'other'
        note = 'trusted: ThreadSanitizer as the observer of data races (a TLA+ model cannot see individual loads/stores); TLC for the lock-protocol table; pair coverage is measured, not assumed'
        text = 'Specification-directed exploration with a dynamic happens-before sensor: the lock protocol (which phases of which method run inside critical sections) is model-checked and validated on traces; actual conflicting accesses are observed by TSan on every pair of public methods.'
    elif i == 'C08':
        t = tech['C08']; lvl = 'model_checking'
        note = 'trusted: ASan/UBSan/_GLIBCXX_DEBUG as observers of UB on executed histories; UB that no executed history reaches is out of reach; TLC exhaustive only within the small constants'
        text = 'Design level: the structural invariants that amount to memory safety (back-pointers inverse to the index, partition within bounds, no rehash) are model-checked on implementation-shaped TLA+ modules. Code level: transition-covering and random histories run under sanitizers with a leak/double-destroy detecting value type.'
    else:
        t = tech['seq'] + (tech['pair'] if i in ('C18', 'C19', 'C20') else ''); lvl = 'model_checking'
        note = 'trusted: TLC + CommunityModules Json/IOUtils, the harness (virtual clock by link-time replacement of steady_clock::now, executor, never-probe-expired bookkeeping), g++/libstdc++; TLC exhaustive only within small constants, code conformance established on executed histories'
        text = 'The operational TLA+ spec is model-checked exhaustively in small scopes against a declarative formulation of the property; the real containers are bound to it by trace validation of every executed history (transition cover of the model with state-identifying suffixes + seeded random histories) under the slice of this property, so every step of every history is judged, at exact clock instants.'
    checks.append(dict(property_id=i, quick_cmd='./check %s quick' % i, thorough_cmd='./check %s thorough' % i,
                       evidence_file='/verif/evidence/%s.json' % i, replay_cmd_template='./check replay {path}',
                       engine='tlc-trace', level_claimed=dict(category=lvl, text=text, design_ref='DESIGN.md section 5 (%s)' % i),
                       level_note=note, technique=t))
m = dict(version=1, setup_cmd='./check setup',
         hooks=dict(guard='CAPPUCCINO_VERIF_HOOKS', enable='-DCAPPUCCINO_VERIF_HOOKS on the harness compile line (tools/vlib.py BASE_FLAGS)',
                    baseline_off_cmd='cmake -G Ninja -S /repo -B /repo/_build >/dev/null && cmake --build /repo/_build && /repo/_build/test/libcappuccino_tests',
                    source_commits=[hook], add_only=True),
         engines=[dict(name='tlc-trace', path='/verif/check', serves_properties=[c['property_id'] for c in checks],
                       kind_free_text='TLA+ specs under /verif/spec checked by TLC; C++ harness under /verif/harness drives the real containers; python orchestration under /verif/tools')],
         checks=checks, not_applicable=na,
         notes='see DESIGN.md; known findings in known_findings.json')
json.dump(m, open(os.path.join(V, 'MANIFEST.json'), 'w'), indent=1)
print(len(checks), 'checks,', len(na), 'not applicable')
