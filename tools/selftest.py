"""Binding self-test (DESIGN.md 3.3): corrupt one logged field or drop one event of a log recorded
from the real code and require the judge to reject it under the matching slice and to accept it
under an unrelated one.  ./check selftest"""
import json
import os
import random
import shutil

import vlib
from vlib import OUT, Profile, build, gen_execution, run_exec, tlc_trace, max_keys


def judge(lines, strict, wd, name):
    tp = os.path.join(wd, name + ".ndjson")
    with open(tp, "w") as f:
        f.write("\n".join(lines) + "\n")
    r = tlc_trace(tp, strict, max_keys(lines), wd, name)
    return "infra" if r.get("infra") else ("accept" if r["accepted"] else "reject")


def corruptions(lines, rng):
    """yield (name, corrupted lines, slice that must reject, slice that must accept)"""
    evs = [(i, json.loads(l)) for i, l in enumerate(lines) if l.startswith('{"e":"op"')]

    def put(i, e):
        out = list(lines)
        out[i] = json.dumps(e, separators=(",", ":"))
        return out
    hits = [(i, e) for i, e in evs if e["op"] == "find" and e["ret"] != 0]
    if hits:
        i, e = rng.choice(hits)
        e = dict(e, ret=e["ret"] + 1)
        yield "lookup returns a different value", put(i, e), ["C01"], ["C10"]
    ins = [(i, e) for i, e in evs if e["op"] == "ins" and e["a"] == 3]
    if ins:
        i, e = rng.choice(ins)
        e = dict(e, ret=0)
        yield "insert_or_update reports failure", put(i, e), ["C09"], ["C10"]
    if evs:
        i, e = rng.choice(evs[1:] or evs)
        e = dict(e, size=e["size"] + 1, empty=0)
        yield "size() one too high", put(i, e), ["C02"], ["C09"]
    full = [(i, e) for i, e in evs if e["obs"]]
    if full:
        i, e = rng.choice(full)
        o = [list(x) for x in e["obs"]]
        o[0][1] += 1
        e = dict(e, obs=o)
        yield "projection shows a value nobody wrote", put(i, e), ["C01"], ["C02"]
    ev = [(n, (i, e)) for n, (i, e) in enumerate(evs) if n > 0 and e["op"] == "ins" and e["ret"] == 1 and e["cap"] > 1
          and e["size"] == e["cap"] and evs[n - 1][1]["size"] == e["cap"]
          and len(evs[n - 1][1]["obs"]) == e["cap"] and e["k"] not in [x[0] for x in evs[n - 1][1]["obs"]]]
    if ev:
        n, (i, e) = rng.choice(ev)
        prev = evs[n - 1][1]["obs"]
        now_keys = [x[0] for x in e["obs"]]
        victim = [x for x in prev if x[0] not in now_keys]
        survivors = [x for x in prev if x[0] in now_keys]
        if victim and survivors:
            # pretend another resident was evicted instead
            other = survivors[0]
            o = [x for x in e["obs"] if x[0] != other[0]] + [victim[0]]
            e2 = dict(e, obs=sorted(o))
            yield "a different resident was evicted", put(i, e2), ["POLICY"], ["C02"]
    # a successful mutation whose effect is visible in the projection and not overwritten by the next call
    mut = [(i, e) for n, (i, e) in enumerate(evs) if 0 < n < len(evs) - 1 and e["op"] in ("ins", "era") and e["ret"] == 1
           and e["obs"] != evs[n - 1][1]["obs"] and evs[n + 1][1]["op"] == "find"]
    if mut:
        i, e = rng.choice(mut)
        out = list(lines)
        del out[i]
        yield "one successful mutation dropped from the log", out, ["C01", "C02", "C03"], None


POLICY = {"lru": "C10", "mru": "C13", "fifo": "C12", "lfu": "C11"}


def main():
    wd = os.path.join(OUT, "selftest_%d" % os.getpid())
    os.makedirs(wd, exist_ok=True)
    rng = random.Random(int(os.environ.get("VERIF_SEED", "1")))
    binp = build("plain")
    prof = Profile(w=dict(ins=45, era=8, find=20, findc=0, insr=0, erar=0, findr=0, findf=0, tick=0, clean=0, age=0, uttl=0,
                          clear=0, obs=2), caps=[2, 3], extra_keys=[2], nops=(40, 60), flavours=[0])
    results = []
    ok = True
    for kind in ("lru", "mru", "fifo", "lfu"):
        script = gen_execution(rng, kind, prof)
        rc, outp, sp, tp = run_exec(binp, script, wd, "base_" + kind)
        lines = [x.rstrip("\n") for x in open(tp) if x.strip()]
        base = judge(lines, vlib.ALL_TAGS, wd, "base_" + kind)
        results.append(dict(kind=kind, corruption="none", verdict=base, expected="accept"))
        ok &= base == "accept"
        for name, bad, must_reject, must_accept in corruptions(lines, rng):
            sl = [POLICY[kind] if t == "POLICY" else t for t in must_reject]
            v1 = judge(bad, sl, wd, "c1")
            r = dict(kind=kind, corruption=name, slice_rejecting=sl, verdict=v1, expected="reject")
            ok &= v1 == "reject"
            if must_accept:
                # only up to the corrupted line: one wrong line leaves a wrong pre-state for the next
                # call, which any slice may then (rightly) object to
                cut = next(i for i, (x, y) in enumerate(zip(bad, lines)) if x != y) + 1
                v2 = judge(bad[:cut], must_accept, wd, "c2")
                r.update(slice_unrelated=must_accept, verdict_unrelated=v2, expected_unrelated="accept")
                ok &= v2 == "accept"
            results.append(r)
    with open(os.path.join(OUT, "selftest.json"), "w") as f:
        json.dump(results, f, indent=1)
    for r in results:
        print(r)
    shutil.rmtree(wd, ignore_errors=True)
    print("SELFTEST " + ("OK" if ok else "FAILED"))
    return 0 if ok else 1
