"""Two-run differential forms of C18, C19, C20, judged by TLC on spec/PairTrace.tla."""
import json
import os
import random
import shutil
from concurrent.futures import ThreadPoolExecutor

import vlib
from vlib import NPROC, OUT, Profile, build, cfg_line, gen_cfg, gen_execution, log, run_exec, split_executions, tlc_trace

PAIR_KINDS = {
    "C18": ["lru", "mru", "fifo", "lfu", "lfuda", "tlru", "utlru", "utmap", "utset"],
    "C19": ["lru", "mru", "fifo", "lfu", "lfuda", "tlru", "utlru", "utmap", "utset"],
    "C20": ["utlru", "utmap"],
}

range_mix = dict(ins=16, era=6, find=10, findc=3, insr=22, erar=9, findr=12, findf=8, tick=8, clean=2, age=2, uttl=2,
                 clear=1, obs=0)
noeff_mix = dict(ins=34, era=10, find=24, findc=8, insr=3, erar=1, findr=6, findf=3, tick=8, clean=1, age=3, uttl=2,
                 clear=0, obs=0)
clear_mix = dict(ins=34, era=6, find=14, findc=0, insr=6, erar=2, findr=5, findf=3, tick=14, clean=4, age=0, uttl=4,
                 clear=0, obs=0)


def profile_for(mode, kind):
    if mode == "C18":
        # tlru / utlru: no update-only inserts (C09 lets an update addressed to an expired, not yet
        # removed entry go either way, so a range and its singles may legitimately differ there)
        allow = [(3, 6), (1, 3)] if kind in ("tlru", "utlru") else [(3, 6), (1, 2), (2, 2)]
        return Profile(w=range_mix, max_range=6, nops=(20, 45), allow_w=allow)
    if mode == "C19":
        allow = [(3, 4), (1, 3)] if kind in vlib.TTL_KINDS else [(3, 4), (1, 3), (2, 3)]
        return Profile(w=noeff_mix, peek_p=0.6, allow_w=allow, nops=(25, 55), extra_keys=[1, 2, 3])
    return Profile(w=clear_mix, nops=(10, 30), ttls=[1, 2, 3, 5, 8, 13, 120])


def ops_events(trace):
    return [json.loads(ln) for ln in trace if ln.startswith('{"e":"op"')]


def ev_to_lines(e, expand_ranges):
    """Script line(s) for a logged event.  The log carries ttls in clock ticks, scripts in ttl units."""
    o = e["op"]
    if o in ("ins", "uttl"):
        e = dict(e, d=e["d"] // vlib.R)
    if o == "insr":
        e = dict(e, kv=[[x[0], x[1], x[2] // vlib.R] for x in e["kv"]])
    if o == "ins":
        return ["ins %d %d %d %d" % (e["k"], e["v"], e["a"], e["d"])]
    if o == "era":
        return ["era %d" % e["k"]]
    if o in ("find", "findc"):
        return ["%s %d %d" % (o, e["k"], e["p"])]
    if o == "insr":
        if expand_ranges:
            return ["ins %d %d %d %d" % (x[0], x[1], e["a"], x[2]) for x in e["kv"]]
        return ["insr %d %d %d %s" % (e["a"], e["var"], len(e["kv"]), " ".join("%d %d %d" % tuple(x) for x in e["kv"]))]
    if o == "erar":
        if expand_ranges:
            return ["era %d" % x[0] for x in e["kv"]]
        return ["erar %d %d %s" % (e["var"], len(e["kv"]), " ".join(str(x[0]) for x in e["kv"]))]
    if o in ("findr", "findf"):
        if expand_ranges:
            return ["find %d %d" % (x[0], e["p"]) for x in e["kv"]]
        return ["%s %d %d %d %s" % (o, e["p"], e["var"], len(e["kv"]), " ".join(str(x[0]) for x in e["kv"]))]
    if o in ("uttl", "tick"):
        return ["%s %d" % (o, e["d"])]
    return [o]


def is_noeffect(e):
    o = e["op"]
    if o in ("find", "findc"):
        return e["p"] == 1 or e["ret"] == 0
    if o in ("ins", "era"):
        return e["ret"] == 0
    if o in ("findr", "findf"):
        return e["p"] == 1 or all(x[1] == 0 for x in e["rl"])
    return False


def gen_A(rng, mode, kind):
    prof = profile_for(mode, kind)
    if mode != "C20":
        a = gen_execution(rng, kind, prof)
        if mode == "C18" and kind in ("utmap", "utset"):
            # an empty range call on ut_map/ut_set still purges (C17); its expansion into zero single
            # calls does not, which shows in size() between calls: not a difference C18 is about
            def empty_range(ln):
                t = ln.split()
                return (t[0] in ("insr", "findr", "findf") and t[3] == "0") or (t[0] == "erar" and t[2] == "0")
            a = [ln for ln in a if not empty_range(ln)]
        return a, None
    cfg = gen_cfg(rng, kind, prof)
    pre = gen_execution(rng, kind, prof, cfg)[1:-1]
    cont = gen_execution(rng, kind, prof, cfg)[1:-1]
    ttl = cfg["ttl"]
    for ln in pre:
        if ln.startswith("uttl "):
            ttl = int(ln.split()[1])
    A = [cfg_line(cfg)] + pre + ["clear"] + cont + ["destroy"]
    cfgB = dict(cfg, ttl=ttl)
    B = [cfg_line(cfgB)] + cont + ["destroy"]
    return A, (B, len(pre) + 1)


def derive_B(mode, A_script, A_trace, extra):
    """Returns (B script, group sizes) where group i belongs to A event i: number of B events."""
    evA = ops_events(A_trace)
    if mode == "C20":
        B, npre = extra
        return B, [0] * npre + [1] * (len(evA) - npre), npre
    lines = [A_script[0]]
    sizes = []
    for e in evA:
        if mode == "C18":
            if e["op"] in ("insr", "erar", "findr", "findf"):
                ls = ev_to_lines(e, True)
                # no projection between the single calls of one expanded range (its lookups are calls
                # too and may discard expired entries in between, which the range form cannot mirror)
                ls = ["~" + x for x in ls[:-1]] + ls[-1:]
            else:
                ls = ev_to_lines(e, False)
        else:
            ls = [] if is_noeffect(e) else ev_to_lines(e, False)
        lines += ls
        sizes.append(len(ls))
    return lines + ["destroy"], sizes, 0


def run_pairs(mode, execsA, wd, label="p"):
    """execsA: list of (A_script, extra).  Returns dict(accepted, groups, rejections=[A_script], infra, nontrivial)."""
    binp = build("plain")
    shutil.rmtree(wd, ignore_errors=True)
    os.makedirs(wd, exist_ok=True)
    chunks = [execsA[i::NPROC] for i in range(NPROC) if execsA[i::NPROC]]

    def work(ci):
        exs = chunks[ci]
        flatA = [ln for a, _ in exs for ln in a]
        rc, outp, sp, tp = run_exec(binp, flatA, wd, "%sA%d" % (label, ci))
        if rc != 0:
            return dict(infra="exec A failed rc=%s %s" % (rc, outp[-500:]))
        with open(tp) as f:
            tA = split_executions([x.rstrip("\n") for x in f if x.strip()])
        Bs = []
        for (a, extra), ta in zip(exs, tA):
            Bs.append(derive_B(mode, a, ta, extra))
        flatB = [ln for b, _, _ in Bs for ln in b]
        rc, outp, sp, tpb = run_exec(binp, flatB, wd, "%sB%d" % (label, ci))
        if rc != 0:
            return dict(infra="exec B failed rc=%s %s" % (rc, outp[-500:]))
        with open(tpb) as f:
            tB = split_executions([x.rstrip("\n") for x in f if x.strip()])
        groups = []
        owner = []
        nontrivial = 0
        for xi, ((a, extra), ta, (b, sizes, npre), tb) in enumerate(zip(exs, tA, Bs, tB)):
            evA = ops_events(ta)
            evB = ops_events(tb)
            kind = json.loads(ta[0])["kind"]
            if sum(sizes) != len(evB) or len(sizes) != len(evA):
                return dict(infra="alignment mismatch %d/%d %d/%d" % (sum(sizes), len(evB), len(sizes), len(evA)))
            pos = 0
            if mode == "C20" and npre:
                groups.append(dict(g=0, kind=kind, mode=mode, A=evA[:npre], B=[]))
                owner.append(xi)
                rest = list(range(npre, len(evA)))
            else:
                rest = list(range(len(evA)))
            interesting = False
            for i in rest:
                n = sizes[i]
                groups.append(dict(g=i + 1, kind=kind, mode=mode, A=[evA[i]], B=evB[pos:pos + n]))
                owner.append(xi)
                if mode == "C18" and n >= 2:
                    interesting = True
                if mode == "C19" and n == 0:
                    interesting = True
                if mode == "C20":
                    interesting = npre > 1
                pos += n
            nontrivial += 1 if interesting else 0
        gp = os.path.join(wd, "%sG%d.ndjson" % (label, ci))
        rejections = []
        accepted_groups = 0
        start = 0
        rnd = 0
        while start < len(groups):
            with open(gp, "w") as f:
                for g in groups[start:]:
                    f.write(json.dumps(g) + "\n")
            r = tlc_trace(gp, [], 1, wd, "%sG%d_%d" % (label, ci, rnd), module="PairTrace", cfg_writer=write_pair_cfg)
            rnd += 1
            if r.get("infra"):
                return dict(infra=r["out"][-2000:])
            if r["accepted"]:
                accepted_groups += len(groups) - start
                break
            bad = start + r["depth"] - 1      # index of the first group with no step
            accepted_groups += bad - start
            xi = owner[bad]
            rejections.append(dict(script=exs[xi][0], extra=exs[xi][1], group=groups[bad]))
            # skip the rest of that execution
            j = bad
            while j < len(groups) and owner[j] == xi:
                j += 1
            start = j
        return dict(groups=len(groups), accepted_groups=accepted_groups, rejections=rejections, execs=len(exs),
                    nontrivial=nontrivial)

    out = dict(groups=0, accepted_groups=0, rejections=[], execs=0, nontrivial=0, infra=None)
    with ThreadPoolExecutor(max_workers=NPROC) as ex:
        for r in ex.map(work, range(len(chunks))):
            if r.get("infra"):
                out["infra"] = r["infra"]
                continue
            for k in ("groups", "accepted_groups", "execs", "nontrivial"):
                out[k] += r[k]
            out["rejections"] += r["rejections"]
    return out


def write_pair_cfg(path, keys, strict):
    with open(path, "w") as f:
        f.write("SPECIFICATION PairSpec\nPOSTCONDITION TraceAccepted\nCHECK_DEADLOCK FALSE\n")


def judge_pair_one(mode, A_script, extra, wd, name):
    r = run_pairs(mode, [(A_script, extra)], os.path.join(wd, name), "q")
    if r["infra"]:
        return "infra", r
    return ("reject" if r["rejections"] else "accept"), r


def minimise(mode, A_script, extra, wd, budget=40):
    """ddmin over A's operations (C18, C19); C20 keeps the structure and is not minimised."""
    if mode == "C20":
        return A_script, extra
    cfg = A_script[0]
    ops = [x for x in A_script[1:] if x != "destroy"]
    calls = [0]

    def test(cand):
        if calls[0] >= budget:
            return False
        calls[0] += 1
        v, _ = judge_pair_one(mode, [cfg] + cand + ["destroy"], None, wd, "dd%d" % calls[0])
        return v == "reject"

    n = 2
    while len(ops) >= 2 and calls[0] < budget:
        size = max(1, len(ops) // n)
        subsets = [ops[i:i + size] for i in range(0, len(ops), size)]
        reduced = False
        for i in range(len(subsets)):
            comp = [x for j, s in enumerate(subsets) if j != i for x in s]
            if comp and test(comp):
                ops = comp
                n = max(n - 1, 2)
                reduced = True
                break
        if not reduced:
            if n >= len(ops):
                break
            n = min(len(ops), n * 2)
    return [cfg] + ops + ["destroy"], None


def gen_batch(rng, mode, n):
    kinds = PAIR_KINDS[mode]
    return [gen_A(rng, mode, kinds[i % len(kinds)]) for i in range(n)]
