"""Dev tool: run the target property's check against every seeded change (scratch copies).
   matrix.py <root> [ids|all] [tier] [propsOverride]"""
import os, shutil, subprocess, sys, json, time
from concurrent.futures import ThreadPoolExecutor
root = sys.argv[1]; ids = sys.argv[2] if len(sys.argv) > 2 else 'all'; tier = sys.argv[3] if len(sys.argv) > 3 else 'quick'
override = sys.argv[4].split(',') if len(sys.argv) > 4 else None
ids = sorted(d for d in os.listdir(root) if os.path.isdir(os.path.join(root, d))) if ids == 'all' else ids.split(',')
V = os.path.dirname(os.path.dirname(os.path.abspath(__file__)))
def one(i):
    d = '/tmp/vrepo/' + i
    shutil.rmtree(d, ignore_errors=True); os.makedirs(d)
    shutil.copytree('/repo/inc', d + '/inc')
    p = subprocess.run(['patch', '-p1', '-s', '-i', os.path.join(root, i, 'patch.diff')], cwd=d, capture_output=True, text=True)
    if p.returncode != 0:
        return i, {'patch': 'FAIL ' + p.stdout + p.stderr}
    meta = json.load(open(os.path.join(root, i, 'meta.json')))
    props = override or [meta['property']]
    out = {}
    for pr in props:
        env = dict(os.environ, VERIF_REPO=d, VERIF_JOBS=os.environ.get('VERIF_JOBS', '5'))
        t0 = time.time()
        r = subprocess.run([os.path.join(V, 'check'), pr, tier], env=env, capture_output=True, text=True, cwd=V)
        lines = [l for l in (r.stdout + r.stderr).splitlines() if l.startswith(('VIOLATION', 'OK', 'INFRA', 'KNOWN', 'VACUOUS'))]
        out[pr] = dict(rc=r.returncode, wall=round(time.time() - t0), lines=[l[:160] for l in lines[:3]])
    shutil.rmtree(d, ignore_errors=True)
    return i, out
with ThreadPoolExecutor(max_workers=int(os.environ.get('MUT_PAR', '3'))) as ex:
    for i, out in ex.map(one, ids):
        for pr, o in out.items():
            print(i, pr, 'DETECTED' if isinstance(o, dict) and o.get('rc') == 1 else ('MISSED' if isinstance(o, dict) and o.get('rc') == 0 else 'ERR'), o, flush=True)
