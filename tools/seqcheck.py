"""Sequential conformance: random / scripted executions on the real containers, judged by TLC
against spec/SeqTrace.tla under a set of property tags."""
import json
import os
import random
import shutil
import time
from concurrent.futures import ThreadPoolExecutor

from vlib import (InfraError, NPROC, OUT, Profile, build, gen_execution, judge_batch, log, run_exec, split_executions,
                  tlc_trace, max_keys)


def chunk(lst, n):
    """round-robin, so that the few expensive executions (scale batch) are spread over all processes"""
    n = max(1, min(n, len(lst)))
    return [lst[i::n] for i in range(n)]


class SeqResult:
    def __init__(self):
        self.executions = 0
        self.accepted = 0
        self.events = 0
        self.rejections = []   # dict(script=[...], trace=[...], line_in_exec, strict)
        self.crashes = []      # dict(script=[...], rc, out)
        self.leaks = []        # dict(script, live, faults)
        self.infra = None
        self.samples = []
        self.distinct = set()
        self.nontrivial = 0
        self.nontrivial_set = set()


def run_scripts(executions, strict, workdir, flavour="plain", label="b", nontrivial=None, judge=True):
    """executions: list of script-line lists (each starting with cfg).  Runs them in chunks on
    the real code, judges the logs under `strict`.  Returns SeqResult."""
    res = SeqResult()
    res.executions = len(executions)
    binp = build(flavour)
    shutil.rmtree(workdir, ignore_errors=True)
    os.makedirs(workdir, exist_ok=True)
    chunks = chunk(executions, NPROC)

    def work(ci):
        exs = chunks[ci]
        flat = [ln for e in exs for ln in e]
        rc, outp, sp, tp = run_exec(binp, flat, workdir, "%s%d" % (label, ci))
        tl = []
        if os.path.exists(tp):
            with open(tp) as f:
                tl = [x.rstrip("\n") for x in f if x.strip()]
        texs = split_executions(tl)
        crash = None
        if rc != 0:
            # the crashing execution is the last one that appears in the log
            idx = max(0, len(texs) - 1)
            crash = dict(script=exs[idx] if idx < len(exs) else exs[-1], rc=rc, out=outp[-4000:])
            # executions after the crash never ran: re-run them separately
        jr = None
        if judge and texs:
            good = texs if rc == 0 else texs[:-1]
            flatg = [ln for e in good for ln in e]
            if flatg:
                jr = judge_batch(flatg, strict, workdir, "%s%d" % (label, ci))
        return ci, exs, texs, crash, jr, rc

    with ThreadPoolExecutor(max_workers=NPROC) as ex:
        outs = list(ex.map(work, range(len(chunks))))
    rerun = []
    for ci, exs, texs, crash, jr, rc in outs:
        if crash:
            res.crashes.append(crash)
            done = len(texs)
            rerun.extend(exs[done:])
        for ti, te in enumerate(texs):
            for ln in te:
                if ln.startswith('{"e":"destroy"'):
                    d = json.loads(ln)
                    if d["live"] != 0 or d["faults"] != 0:
                        res.leaks.append(dict(script=exs[ti], live=d["live"], faults=d["faults"]))
            key = "\n".join(exs[ti]) if ti < len(exs) else None
            if key is not None:
                res.distinct.add(hash(key))
            if nontrivial and ti < len(exs) and nontrivial(te):
                res.nontrivial_set.add(hash(key))
                res.nontrivial = len(res.nontrivial_set)
        if jr:
            acc, rej, ev, infra = jr
            res.accepted += acc
            res.events += ev
            if infra:
                res.infra = infra
            for r in rej:
                # map the rejected trace execution back to its script
                good = texs if rc == 0 else texs[:-1]
                script = exs[r["exec_index"]]
                res.rejections.append(dict(script=script, trace=r["trace"], line_in_exec=r["line_in_exec"],
                                           strict=list(strict)))
        if len(res.samples) < 2 and exs:
            res.samples.append(exs[0][:12])
    if rerun and len(rerun) < len(executions):
        sub = run_scripts(rerun, strict, workdir + "_r", flavour, label, nontrivial, judge)
        res.accepted += sub.accepted
        res.events += sub.events
        res.rejections += sub.rejections
        res.crashes += sub.crashes
        res.leaks += sub.leaks
        res.nontrivial_set |= sub.nontrivial_set
        res.nontrivial = len(res.nontrivial_set)
        res.distinct |= sub.distinct
        res.infra = res.infra or sub.infra
    return res


def judge_one(script, strict, workdir, name, flavour="plain"):
    """Run one execution and judge it; returns 'accept' | 'reject' | 'crash' | 'infra', detail."""
    binp = build(flavour)
    rc, outp, sp, tp = run_exec(binp, script, workdir, name)
    if rc != 0:
        return "crash", dict(rc=rc, out=outp[-3000:])
    with open(tp) as f:
        tl = [x.rstrip("\n") for x in f if x.strip()]
    for ln in tl:
        if ln.startswith('{"e":"destroy"'):
            d = json.loads(ln)
            if d["live"] != 0 or d["faults"] != 0:
                return "crash", dict(rc=0, out="leak/fault: %s" % ln)
    if strict is None:
        return "accept", {}
    r = tlc_trace(tp, strict, max_keys(tl), workdir, name)
    if r.get("infra"):
        return "infra", dict(out=r["out"][-3000:])
    if r["accepted"]:
        return "accept", r
    return "reject", dict(line=r["depth"], n=r["n"], trace=tl)


def ddmin(script, strict, workdir, want, flavour="plain", budget=60):
    """Delta debugging of one execution (cfg line + ops [+ destroy]) keeping verdict `want`."""
    cfg = script[0]
    ops = [x for x in script[1:] if x != "destroy"]
    tail = ["destroy"]
    calls = [0]

    def test(cand):
        if calls[0] >= budget:
            return False
        calls[0] += 1
        v, _ = judge_one([cfg] + cand + tail, strict, workdir, "dd%d" % calls[0], flavour)
        return v == want

    n = 2
    while len(ops) >= 2 and calls[0] < budget:
        size = max(1, len(ops) // n)
        subsets = [ops[i:i + size] for i in range(0, len(ops), size)]
        reduced = False
        # try complements
        for i in range(len(subsets)):
            comp = [x for j, s in enumerate(subsets) if j != i for x in s]
            if comp and test(comp):
                ops = comp
                n = max(n - 1, 2)
                reduced = True
                break
        if not reduced:
            if n >= len(ops):
                break
            n = min(len(ops), n * 2)
    return [cfg] + ops + tail
