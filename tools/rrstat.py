"""C15 spread statistic: long rr_cache runs judged by spec/RrStat.tla."""
import os
import re
from concurrent.futures import ThreadPoolExecutor

import vlib
from vlib import build, cfg_line, run_exec, tlc_trace

CAPS = [2, 3, 5, 8]
_RE = re.compile(r'<<"RR-SPREAD",(\d+),(\d+),(TRUE|FALSE),<<([^>]*)>>>>')


def gen_script(rng, cap, nev):
    keys = cap + 3
    cfg = dict(kind="rr", cap=cap, ts=rng.choice([0, 1]), mlf=rng.choice(vlib.MLFS), ttl=0, tick=1, rnum=1, rsh=1,
               fl=rng.choice([0, 1]), keys=keys)
    lines = [cfg_line(cfg)]
    n = int(nev * (keys / 3.0) * 1.25) + 50
    for _ in range(n):
        r = rng.random()
        k = rng.randint(1, keys)
        if r < 0.90:
            lines.append("ins %d %d 3 0" % (k, rng.randint(1, 9)))
        elif r < 0.95:
            lines.append("era %d" % k)
        else:
            lines.append("find %d 0" % k)
    lines.append("destroy")
    return lines


def write_cfg(path, keys, strict):
    with open(path, "w") as f:
        f.write("SPECIFICATION StatSpec\nCONSTANTS\n  Keys = {%s}\n  Strict = {\"C15\", \"C03\"}\n" %
                ",".join(str(i) for i in range(1, keys + 1)))
        f.write("POSTCONDITION TraceAccepted\nCHECK_DEADLOCK FALSE\n")


def judge_scripts(scripts, wd, name):
    """All scripts run in ONE process, in the given order (state shared between instances of the
    same specialisation - a static, say - must not let one cache's capacity leak into another's
    choice); every execution's log is judged separately."""
    binp = build("plain")
    flat = [ln for s in scripts for ln in s]
    rc, outp, sp, tp = run_exec(binp, flat, wd, name)
    if rc != 0:
        return [dict(infra="exec rc=%s %s" % (rc, outp[-500:]))]
    with open(tp) as f:
        traces = vlib.split_executions([x.rstrip("\n") for x in f if x.strip()])
    out = []
    for i, (script, tr) in enumerate(zip(scripts, traces)):
        keys = int(script[0].split()[10])
        p = os.path.join(wd, "%s_%d.ndjson" % (name, i))
        with open(p, "w") as f:
            f.write("\n".join(tr) + "\n")
        r = tlc_trace(p, [], keys, wd, "%s_%d" % (name, i), module="RrStat", cfg_writer=write_cfg, timeout=1200, heap="4g")
        m = _RE.search(re.sub(r"\s+", "", r["out"]))
        if r.get("infra") or not m:
            if r.get("depth") and not r["accepted"]:
                out.append(dict(rejected=True, line=r["depth"]))
            else:
                out.append(dict(infra=r["out"][-1500:]))
            continue
        out.append(dict(cap=int(m.group(1)), n=int(m.group(2)), ok=m.group(3) == "TRUE",
                        hits=[int(x) for x in m.group(4).split(",")][:int(m.group(1))], accepted=r["accepted"]))
    return out


def run(tier, wd, rng):
    nev = 4200 if tier == "quick" else 20000
    scripts = [gen_script(rng, c, nev) for c in CAPS]
    out = dict(runs=[], violations=[], infra=None, scripts=scripts)
    for c, s, r in zip(CAPS, scripts, judge_scripts(scripts, wd, "rr")):
        if r.get("infra"):
            out["infra"] = r["infra"]
            continue
        if r.get("rejected"):
            continue    # a structural rejection is reported by the ordinary slice run
        out["runs"].append(dict(cap=c, evictions=r["n"], hits_by_insertion_rank=r["hits"], spread_ok=r["ok"]))
        if r["n"] < 4000:
            out["infra"] = "only %d evictions at capacity %d" % (r["n"], c)
        elif not r["ok"]:
            out["violations"].append((c, s, r))
    return out
