"""C06, free-running tier: real threads hammer one container with no harness synchronisation
inside the run; every call logs the sequence number drawn while the container lock is held
(after_lock hook).  Ordered by that number the log is a sequential history, validated by
spec/SeqTrace.tla; a full projection is taken at each quiescent point."""
import json
import os
import shutil
import subprocess
from concurrent.futures import ThreadPoolExecutor

import vlib
from vlib import KINDS, NPROC, build, cfg_line, judge_batch, log, sh

FREE_TAGS = ["C01", "C03", "C09", "C18", "SPEC", "C06"]


def block(kind, seed, threads, calls, rounds):
    cap = 0 if kind in ("utmap", "utset") else 4
    cfg = dict(kind=kind, cap=cap, ts=1, mlf=100, ttl=100000, tick=2, rnum=1, rsh=1, fl=seed % 2, keys=4)
    return [cfg_line(cfg), "pre ins 1 5 3 100000", "threads %d" % threads, "calls %d" % calls, "seed %d" % seed,
            "record 1", "keys 4", "rounds %d" % rounds, "end"]


def to_trace(log_lines):
    """conc free log (one cfg ... endcase block) -> SeqTrace lines"""
    out = []
    keys = 4
    for ln in log_lines:
        e = json.loads(ln)
        if e["e"] == "cfg":
            keys = e["keys"]
            out.append(ln)
        elif e["e"] == "op":
            out.append(ln)
        elif e["e"] == "call":
            out.append(json.dumps(dict(e="op", op=e["op"], k=e["k"], v=e["v"], a=e["a"], d=e["d"], p=e["p"], var=e["var"],
                                       kv=e["kv"], now=e["now"], ret=e["ret"], rc=e["rc"], rl=e["rl"], size=-1, size2=-1, empty=0,
                                       cap=0, obs=[], skip=list(range(1, keys + 1))), separators=(",", ":")))
    return out


def run_blocks(blocks, wd, name):
    binp = build("plain", "conc")
    os.makedirs(wd, exist_ok=True)
    pp = os.path.join(wd, name + ".prog")
    tp = os.path.join(wd, name + ".log")
    with open(pp, "w") as f:
        for b in blocks:
            f.write("\n".join(b) + "\n")
    try:
        r = sh([binp, "free", pp, tp], timeout=600)
    except subprocess.TimeoutExpired:
        return None, "free run timed out"
    if r.returncode != 0:
        return None, "conc free failed rc=%s %s" % (r.returncode, r.stdout[-800:])
    with open(tp) as f:
        lines = [x.rstrip("\n") for x in f if x.strip()]
    cases = []
    cur = None
    for ln in lines:
        if ln.startswith('{"e":"cfg"'):
            cur = []
            cases.append(cur)
        if ln.startswith('{"e":"endcase"'):
            cur = None
            continue
        if cur is not None:
            cur.append(ln)
    return [to_trace(c) for c in cases], None


def run(tier, wd, rng):
    from runner import write_replay
    nblocks = 60 if tier == "quick" else 1200
    blocks = []
    for i in range(nblocks):
        kind = KINDS[i % len(KINDS)]
        blocks.append(block(kind, rng.randint(1, 10 ** 6), rng.choice([2, 3, 4]), rng.choice([40, 80]), 3))
    chunks = [blocks[i::NPROC] for i in range(NPROC) if blocks[i::NPROC]]
    res = dict(accepted=0, events=0, violations=[], summary=None)
    calls = 0

    def work(ci):
        traces, err = run_blocks(chunks[ci], wd, "f%d" % ci)
        if err:
            return dict(infra=err)
        flat = [ln for t in traces for ln in t]
        acc, rej, ev, infra = judge_batch(flat, FREE_TAGS, wd, "f%d" % ci)
        return dict(acc=acc, rej=[(chunks[ci][r["exec_index"]], r) for r in rej], ev=ev, infra=infra)

    with ThreadPoolExecutor(max_workers=NPROC) as ex:
        for r in ex.map(work, range(len(chunks))):
            if r.get("infra"):
                res["infra"] = r["infra"]
                continue
            res["accepted"] += r["acc"]
            res["events"] += r["ev"]
            for blk, rj in r["rej"]:
                # a free run is not reproducible by construction: re-run the block a few times
                again = 0
                for _ in range(3):
                    traces, err = run_blocks([blk], os.path.join(wd, "again"), "a")
                    if err:
                        continue
                    _, rej2, _, _ = judge_batch(traces[0], FREE_TAGS, os.path.join(wd, "again"), "a")
                    if rej2:
                        again += 1
                if again == 0:
                    log("free-running rejection did not repeat in 3 re-runs; not reported")
                    continue
                i = rj["line_in_exec"]
                log("free-running log not explained by any sequential order at line %d:\n%s" %
                    (i, "\n".join(x[:260] for x in rj["trace"][max(0, i - 3):i])))
                res["violations"].append(write_replay("C06", blk, FREE_TAGS, "free"))
    res["summary"] = dict(blocks=len(blocks), logs_accepted=res["accepted"], events=res["events"],
                          threads="2-4", calls_per_thread="40-80 x 3 rounds")
    return res


def replay(meta, script, path):
    wd = os.path.join(vlib.OUT, "replay_%d" % os.getpid())
    bad = 0
    for i in range(5):
        traces, err = run_blocks([script], wd, "r")
        if err:
            print("replay: infrastructure failure: " + err)
            return 2
        _, rej, _, infra = judge_batch(traces[0], FREE_TAGS, wd, "r")
        if infra:
            print("replay: infrastructure failure: " + infra[-800:])
            return 2
        if rej:
            bad += 1
            r = rej[0]
            i = r["line_in_exec"]
            print("replay: run %d: no sequential order explains the log at line %d" % (i, r["line_in_exec"]))
            for ln in r["trace"][max(0, i - 3):i]:
                print("   " + ln[:300])
            break
    shutil.rmtree(wd, ignore_errors=True)
    if bad:
        print("VIOLATION property=C06 replay=%s" % path)
        return 1
    print("replay: 5 free runs accepted")
    return 0
