def run(tier, wd, rng):
    return dict(accepted=0, events=0, summary=None, violations=[])
def replay(meta, script, path):
    return 2
